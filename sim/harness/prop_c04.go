package harness

import (
	"bytes"
	"fmt"
	"io"

	netty "github.com/go-netty/go-netty"
	"github.com/go-netty/go-netty/verifsim/simnet"
	"github.com/go-netty/go-netty/verifsim/simrt"
)

func init() { Register(&PropDef{ID: "C04", Run: runC04}) }

type frameRec struct {
	Data     []byte
	Err      error
	Consumed int // inbound bytes consumed when the frame had been read to its end
}

// frameSink is the handler below a frame decoder: it reads every delivered frame to EOF.
type frameSink struct {
	env    *Env
	conn   *simnet.Conn
	Frames []*frameRec
	Ex     []error
}

//go:norace
func (s *frameSink) add(data []byte, err error) {
	s.Frames = append(s.Frames, &frameRec{Data: data, Err: err, Consumed: s.conn.InboundConsumed()})
}

//go:norace
func (s *frameSink) addEx(err error) { s.Ex = append(s.Ex, err) }

func (s *frameSink) HandleRead(ctx netty.InboundContext, msg netty.Message) {
	switch m := msg.(type) {
	case io.Reader:
		data, err := io.ReadAll(m)
		s.add(data, err)
	case []byte:
		s.add(append([]byte(nil), m...), nil)
	default:
		s.add(nil, fmt.Errorf("unexpected message type %T", msg))
	}
}

func (s *frameSink) HandleException(ctx netty.ExceptionContext, ex netty.Exception) {
	s.addEx(ex)
	ctx.HandleException(ex)
}

var c04Sizes = []int{5, 0, 1, 2, 255, 256, 300, 1023, 1024, 1025, 4096, 65535, 65536}

type c04Payload struct {
	P          []byte
	Admissible bool
	Carrier    int
	ExBefore, ExAfter int
	WireBefore, WireAfter int
}

//go:norace
func (p *c04Payload) before(ex, wire int) { p.ExBefore, p.WireBefore = ex, wire }

//go:norace
func (p *c04Payload) after(ex, wire int) { p.ExAfter, p.WireAfter = ex, wire }

// runC04Shared: several goroutines encode through ONE codec instance at once (a codec is installed once per
// channel and the channel's write entry points are meant for concurrent use). Whatever the interleaving, every
// emitted frame's header must agree with its body: the emitted stream must decode, by the reference decoder, into
// exactly the payloads written.
//
//go:norace
func runC04Shared(e *Env) {
	var spec *FrameSpec
	for {
		spec = drawFrameSpec(e)
		if spec.Encoder() != nil && spec.Kind != fkFixed {
			break
		}
	}
	if spec.Max < 5000 {
		spec.Max = 1 << 20
	}
	cc := e.drawChan(true, []int{8, 2})
	if cc.Async {
		cc.Until = true
	}
	writers := 2 + e.P(2)
	per := 1 + e.P(3)
	var all [][]byte
	plans := make([][][]byte, writers)
	for w := 0; w < writers; w++ {
		for i := 0; i < per; i++ {
			// lengths whose encoded headers differ from writer to writer
			size := []int{3, 300, 1, 130, 70, 2000, 17000, 66000}[e.P(8)] + w
			p := framePayload(len(all), size)
			if spec.Kind == fkDelimiter {
				p = delimFree(p, spec.Delim)
			}
			if !spec.Admissible(p) {
				p = framePayload(len(all), 70+w)
				if spec.Kind == fkDelimiter {
					p = delimFree(p, spec.Delim)
				}
				if !spec.Admissible(p) {
					continue
				}
			}
			all = append(all, p)
			plans[w] = append(plans[w], p)
		}
	}
	e.Describe("codec=%s; %d goroutines x %d payloads through one encoder instance on channel=%s", spec, writers, per, cc)
	enc := e.NewRig(cc, false)
	encPl := netty.NewPipeline()
	encPl.AddLast(spec.Encoder(), &Probe{env: e, Name: "enc-ex", Swallow: true, ReadTransport: true})
	enc.Pl = encPl
	enc.Ch = cc.Factory()(1, enc.Ctx, encPl, enc.Conn, enc.X)
	e.Go("main", func() {
		enc.Pl.ServeChannel(enc.Ch)
		for w := 0; w < writers; w++ {
			w := w
			e.Go(fmt.Sprintf("writer%d", w), func() {
				for _, p := range plans[w] {
					e.Step()
					func() {
						defer func() { recover() }()
						enc.Ch.Write(append([]byte(nil), p...))
					}()
				}
			})
		}
	})
	end := e.RunToEnd()
	cls := spec.Class() + ",concurrent-writers"
	if end == simrt.EndQuiescent || end == simrt.EndAllDone {
		if n := len(encExceptions(enc)); n > 0 {
			e.Violate("encode", cls+",rejected-admissible", "%d exceptions were raised for admissible payloads", n)
		}
		frames, ends := spec.RefDecode(enc.Conn.Wire)
		consumed := 0
		if len(ends) > 0 {
			consumed = ends[len(ends)-1]
		}
		used := make([]bool, len(all))
		ok := len(frames) == len(all) && consumed == len(enc.Conn.Wire)
		for _, f := range frames {
			found := false
			for k, p := range all {
				if !used[k] && bytes.Equal(f, spec.Delivered(p)) {
					used[k], found = true, true
					break
				}
			}
			if !found {
				ok = false
			}
		}
		if !ok {
			e.Violate("encode-header-body-agree", cls, "%d payloads were written by %d goroutines; the emitted %d bytes decode (reference decoder) into %d frames consuming %d bytes, not into exactly those payloads: some header does not agree with its body", len(all), writers, len(enc.Conn.Wire), len(frames), consumed)
		}
	}
	e.Count("kind:"+fkNames[spec.Kind], 1)
	e.Count("concurrent_encoder_runs", 1)
	e.Go("teardown", func() { enc.Ch.Close(fmt.Errorf("teardown")) })
	e.Sim.Run()
}

//go:norace
func runC04(e *Env) {
	if e.P(8) == 7 {
		runC04Shared(e)
		return
	}
	spec := drawFrameSpec(e)
	n := 1 + e.P(8)
	if spec.Kind == fkDelimiter && n > 4 {
		n = 4
	}
	var pays []*c04Payload
	for i := 0; i < n; i++ {
		size := e.PSize(c04Sizes, 66000)
		if e.P(5) == 4 {
			// just below, at and just above a power of two (buffer and scratch sizes tend to be powers of two, and a frame
			// is its payload plus a few header bytes)
			size = (1 << uint(3+e.P(14))) + e.P(19) - 12
			if size < 0 {
				size = 0
			}
		}
		if spec.Kind == fkFixed {
			size = spec.Fixed
		} else if e.P(4) == 3 {
			// aim at the configured maximum: the largest payload that still fits, one more, one less
			hdr := len(mustRef(spec, nil))
			size = spec.Max - hdr + (e.P(3) - 1)
			if size < 0 || size > 70000 {
				size = 7
			}
		}
		if spec.Kind == fkDelimiter && size > 1025 {
			size = 1025 // the delimiter decoder reads byte by byte: every byte is a scheduling step
		}
		p := framePayload(i, size)
		if spec.Kind == fkDelimiter {
			p = delimFree(p, spec.Delim)
		}
		pl := &c04Payload{P: p, Admissible: spec.Admissible(p)}
		pl.Carrier = []int{caBytes, caBuffer, caWriterTo1, caString, caReaderStream}[e.P(5)]
		if spec.Kind == fkFixed && pl.Carrier == caString {
			pl.Carrier = caBytes // the fixed-length encoder passes the message on unchanged; the head does not take strings
		}
		pays = append(pays, pl)
	}
	useEncoder := spec.Encoder() != nil
	cc := e.drawChan(true, []int{8, 2})
	if cc.Async {
		cc.Until = true
	}
	e.Describe("codec=%s payloads=%d shipped-encoder=%v decoder read fragmentation=%d encoder channel=%s", spec, n, useEncoder, 0, cc)
	for i, p := range pays {
		e.Describe("payload %d: %d bytes, carrier %s, admissible=%v", i, len(p.P), carrierNames[p.Carrier], p.Admissible)
	}
	// decoder side
	dec := e.NewRig(ChanCfg{}, false)
	dec.Conn.Frag = 1 + e.P(3) // byte / random / mixed
	if e.P(4) == 0 {
		dec.Conn.Frag = simnet.FragWhole
	}
	sink := &frameSink{env: e, conn: dec.Conn}
	// rebuild the decoder pipeline: codec, sink (the rig's default probe is not used for reading)
	decPl := netty.NewPipeline()
	decPl.AddLast(spec.Codec(), sink)
	decCh := netty.NewChannel()(2, dec.Ctx, decPl, dec.Conn, dec.X)

	var enc *Rig
	var encSink *frameSink
	var wire []byte // the encoded stream as the reference encoder produces it
	for _, p := range pays {
		if p.Admissible {
			w, _ := spec.RefEncode(p.P)
			wire = append(wire, w...)
		}
	}
	if useEncoder {
		enc = e.NewRig(cc, false)
		encSink = &frameSink{env: e, conn: enc.Conn}
		encPl := netty.NewPipeline()
		encPl.AddLast(spec.Encoder(), &Probe{env: e, Name: "enc-ex", Swallow: true, ReadTransport: true})
		enc.Pl = encPl
		enc.Ch = cc.Factory()(1, enc.Ctx, encPl, enc.Conn, enc.X)
		enc.Conn.Peer = dec.Conn // what the encoder emits is what the decoder reads
	}
	_ = encSink
	e.Go("main", func() {
		decPl.ServeChannel(decCh)
		if useEncoder {
			enc.Pl.ServeChannel(enc.Ch)
			e.Go("writer", func() {
				exProbe := func() int { return len(encExceptions(enc)) }
				for _, p := range pays {
					e.Step()
					p.before(exProbe(), len(enc.Conn.Wire))
					func() {
						defer func() { recover() }()
						enc.Ch.Write(makeCarrier(p.Carrier, p.P, e))
					}()
					p.after(exProbe(), len(enc.Conn.Wire))
				}
			})
		} else {
			e.Go("peer", func() {
				// feed the reference wire in tape-chosen pieces, so that the decoder blocks mid-header and mid-body
				rest := wire
				for len(rest) > 0 {
					e.Step()
					k := 1 + e.P(len(rest))
					if e.P(3) == 0 {
						k = len(rest)
					}
					dec.Conn.Feed(rest[:k])
					rest = rest[k:]
				}
			})
		}
	})
	e.RunToEnd()
	cls := spec.Class()
	// ---- encoder clause ----
	if useEncoder {
		// exceptions are raised synchronously inside Channel.Write, so they are attributable to a call even on a
		// queued channel; the bytes are attributed by walking the emitted stream with the reference encodings.
		got := enc.Conn.Wire
		pos := 0
		for i, p := range pays {
			raised := p.ExAfter-p.ExBefore > 0
			want, ok := spec.RefEncode(p.P)
			if raised {
				if p.Admissible {
					e.Violate("encode", cls+",rejected-admissible", "payload %d (%d bytes, %s) is inside the codec's contract but the encoder rejected it", i, len(p.P), carrierNames[p.Carrier])
				}
				continue
			}
			next := got[pos:]
			if len(next) > 10 {
				next = next[:10]
			}
			if !ok {
				e.Violate("encode-header-body-agree", cls, "payload %d (%d bytes, %s) cannot be represented by the length field, yet the encoder accepted it and emitted bytes starting % x: the header cannot agree with the body", i, len(p.P), carrierNames[p.Carrier], next)
				break
			}
			if pos+len(want) > len(got) || !bytes.Equal(got[pos:pos+len(want)], want) {
				w10 := want
				if len(w10) > 10 {
					w10 = w10[:10]
				}
				e.Violate("encode-header-body-agree", cls, "payload %d (%d bytes, %s): the emitted frame starts % x, the frame that decodes to the payload starts % x (first difference at frame offset %d)", i, len(p.P), carrierNames[p.Carrier], next, w10, firstDiff(got[pos:], want))
				break
			}
			pos += len(want)
		}
		if len(e.Viol) == 0 && pos != len(got) {
			e.Violate("encode", cls+",extra-bytes", "%d bytes were emitted beyond the frames of the accepted payloads", len(got)-pos)
		}
	}
	// ---- decoder clause: only judged when the stream on the wire is the reference stream ----
	onWire := dec.Conn.InboundConsumed() + dec.Conn.InboundPending()
	if len(e.Viol) == 0 && onWire == len(wire) {
		var exp [][]byte
		var ends []int
		off := 0
		for _, p := range pays {
			if p.Admissible {
				w, _ := spec.RefEncode(p.P)
				off += len(w)
				exp = append(exp, spec.Delivered(p.P))
				ends = append(ends, off)
			}
		}
		if len(sink.Frames) != len(exp) {
			e.Violate("decode-count", cls, "%d frames were sent but %d were delivered (decoder exceptions: %d)", len(exp), len(sink.Frames), len(sink.Ex))
		}
		for i := 0; i < len(exp) && i < len(sink.Frames); i++ {
			f := sink.Frames[i]
			if f.Err != nil || !bytes.Equal(f.Data, exp[i]) {
				e.Violate("decode-content", cls, "frame %d: delivered %d bytes (err=%v), expected %d bytes; first difference at %d", i, len(f.Data), f.Err, len(exp[i]), firstDiff(f.Data, exp[i]))
				break
			}
			if f.Consumed != ends[i] {
				e.Violate("decode-boundary", cls, "frame %d: after the frame had been read to its end the decoder had consumed %d bytes of the stream; the frame ends at %d", i, f.Consumed, ends[i])
				break
			}
		}
		if len(sink.Ex) > 0 {
			e.Violate("decode-no-exception", cls, "the decoder raised %q on a stream of admissible frames", sink.Ex[0])
		}
		e.Count("frames_decoded", len(sink.Frames))
	}
	e.Count("kind:"+fkNames[spec.Kind], 1)
	e.Count("short_reads_fired", dec.Conn.Fired.ShortReads)
	e.Count("byte_reads_fired", dec.Conn.Fired.ByteReads)
	e.Count("blocked_reads_fired", dec.Conn.Fired.BlockedReads)
	for _, p := range pays {
		if !p.Admissible {
			e.Count("inadmissible_payloads_offered", 1)
		}
	}
	// teardown both sides
	e.Go("teardown", func() {
		decCh.Close(fmt.Errorf("teardown"))
		if enc != nil {
			enc.Ch.Close(fmt.Errorf("teardown"))
		}
	})
	e.Sim.Run()
}

//go:norace
func mustRef(s *FrameSpec, p []byte) []byte {
	w, _ := s.RefEncode(p)
	if s.Kind == fkFixed {
		return nil
	}
	return w
}

// encExceptions returns the exceptions seen by the encoder pipeline's probe.
//
//go:norace
func encExceptions(r *Rig) []*Delivery {
	var out []*Delivery
	for i := 0; i < r.Pl.Size(); i++ {
		if p, ok := r.Pl.ContextAt(i).Handler().(*Probe); ok {
			out = append(out, p.Of("exception")...)
		}
	}
	return out
}

// senderIdle: everything handed to the channel so far has reached the transport and was flushed.
//
//go:norace
func senderIdle(r *Rig) bool {
	if r.Conn.Unflushed != 0 {
		return false
	}
	for _, t := range r.X.Tasks[1:] {
		if !t.Done() {
			return false
		}
	}
	return true
}
