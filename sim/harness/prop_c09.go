package harness

import (
	"bytes"
	"encoding/binary"
	"fmt"

	netty "github.com/go-netty/go-netty"
	"github.com/go-netty/go-netty/codec/format"
	"github.com/go-netty/go-netty/codec/frame"
)

func init() { Register(&PropDef{ID: "C09", Run: runC09}) }

const (
	plBare = iota
	plDelimiter
	plDelimText
	plLengthField
	plVarint
	plText // text codec alone: a string reaches the head as a *strings.Reader (an io.WriterTo)
	nPipelines
)

var plNames = []string{"bare", "delimiter", "delimiter+text", "length-field", "varint", "text"}

var msgSizes = []int{5, 1, 40, 1023, 1024, 1025, 3000}

// refEncode is the harness' own encoder of the wire form of one message.
//
//go:norace
func refEncode(pl int, body []byte) []byte {
	switch pl {
	case plDelimiter, plDelimText:
		return append(append([]byte(nil), body...), '$')
	case plLengthField:
		h := make([]byte, 4)
		binary.BigEndian.PutUint32(h, uint32(len(body)))
		return append(h, body...)
	case plVarint:
		h := make([]byte, binary.MaxVarintLen64)
		n := binary.PutUvarint(h, uint64(len(body)))
		return append(h[:n], body...)
	}
	return append([]byte(nil), body...)
}

type c09Msg struct {
	ID     int
	Writer int
	Body   []byte
	Enc    []byte
	Done   bool
	Panic  interface{}
	Err    error
}

//go:norace
func (m *c09Msg) finish(err error, p interface{}) { m.Done, m.Err, m.Panic = true, err, p }

//go:norace
func runC09(e *Env) {
	cc := e.drawChan(true, []int{2, 8, 64})
	if cc.Async && !cc.Until {
		cc.Until = true // a full non-blocking queue would fail writes; that is C18's subject
	}
	pl := e.P(nPipelines)
	var carrier int
	switch pl {
	case plBare:
		carrier = e.P(caString) // every head-accepted carrier
	case plDelimText, plText:
		carrier = caString
	case plDelimiter:
		carrier = e.P(caString)
	default:
		carrier = e.P(nCarriers)
	}
	var hs []netty.Handler
	switch pl {
	case plDelimiter:
		hs = append(hs, frame.DelimiterCodec(1<<20, "$", true))
	case plDelimText:
		hs = append(hs, frame.DelimiterCodec(1<<20, "$", true), format.TextCodec())
	case plLengthField:
		hs = append(hs, frame.LengthFieldCodec(binary.BigEndian, 1<<20, 0, 4, 0, 4))
	case plVarint:
		hs = append(hs, frame.VarintLengthFieldCodec(1<<20))
	case plText:
		hs = append(hs, format.TextCodec())
	}
	writers := 2 + e.P(3)
	per := 1 + e.P(3)
	big := e.P(8) == 7 && carrier != caReaderStream && carrier != caWriterToN && carrier != caReaderSmall
	viaCtx := e.P(3) == 2
	plName := plNames[pl]
	if pl == plDelimiter {
		if carrier == caReaderSmall || carrier == caReaderStream || carrier == caWriterToN {
			plName = "delimiter(streaming-path)" // generic readers are wrapped in a MultiReader and streamed
		} else {
			plName = "delimiter(vector-path)" // in-memory messages: one vectored write
		}
	}
	mode := "sync"
	if cc.Async {
		mode = "async"
	}
	class := fmt.Sprintf("pipeline=%s,carrier=%s,%s", plName, carrierNames[carrier], mode)
	var msgs []*c09Msg
	plans := make([][]*c09Msg, writers)
	for w := 0; w < writers; w++ {
		for i := 0; i < per; i++ {
			m := &c09Msg{ID: len(msgs), Writer: w}
			size := e.PSize(msgSizes, 6000)
			if big && i == 0 {
				size = 66000 + 1000*w // larger than the biggest pooled buffer class
			}
			if carrier == caReaderSmall && size > 1024 {
				size = 1024 // beyond one streaming chunk the head needs several writes: that is the multi-read class
			}
			m.Body = msgPayload(m.ID, size)
			m.Enc = refEncode(pl, m.Body)
			msgs = append(msgs, m)
			plans[w] = append(plans[w], m)
		}
	}
	e.Describe("channel=%s %s writers=%d x %d messages via %s", cc, class, writers, per, map[bool]string{false: "Channel.Write", true: "ctx.Write"}[viaCtx])
	for _, m := range msgs {
		e.Describe("msg %d by w%d: %d bytes", m.ID, m.Writer, len(m.Body))
	}
	rig := e.NewRig(cc, false, hs...)
	// the rig's probe sits at the tail side and only forwards writes; inbound codecs never see data here
	e.Go("main", func() {
		rig.Serve()
		for w := 0; w < writers; w++ {
			w := w
			e.Go(fmt.Sprintf("writer%d", w), func() {
				for _, m := range plans[w] {
					e.Step()
					msg := makeCarrier(carrier, m.Body, e)
					func() {
						defer func() {
							if r := recover(); r != nil {
								m.finish(nil, r)
							}
						}()
						if viaCtx {
							rig.Pl.ContextAt(rig.Pl.Size() - 1).Write(msg)
							m.finish(nil, nil)
						} else {
							m.finish(rig.Ch.Write(msg), nil)
						}
					}()
				}
			})
		}
	})
	e.RunToEnd()
	// ---- oracle: the wire is a concatenation of whole message encodings ----
	wire := rig.Conn.Wire
	used := make([]bool, len(msgs))
	pos := 0
	for pos < len(wire) {
		found := -1
		for i, m := range msgs {
			if !used[i] && len(m.Enc) <= len(wire)-pos && bytes.Equal(wire[pos:pos+len(m.Enc)], m.Enc) {
				found = i
				break
			}
		}
		if found < 0 {
			// which message was being written here: the one sharing the longest prefix
			best, bl := -1, 0
			for i, m := range msgs {
				if used[i] {
					continue
				}
				k := 0
				for k < len(m.Enc) && pos+k < len(wire) && wire[pos+k] == m.Enc[k] {
					k++
				}
				if k > bl {
					best, bl = i, k
				}
			}
			if best >= 0 {
				e.Violate("contiguous", class, "at wire offset %d message %d (w%d, %d bytes) is interrupted after %d of its %d encoded bytes by bytes of another message (next bytes: %q)",
					pos, best, msgs[best].Writer, len(msgs[best].Body), bl, len(msgs[best].Enc), clip(wire[pos+bl:], 12))
			} else {
				e.Violate("contiguous", class, "at wire offset %d the bytes %q start no message", pos, clip(wire[pos:], 12))
			}
			break
		}
		used[found] = true
		pos += len(msgs[found].Enc)
	}
	if len(rig.Probe.Of("exception")) > 0 {
		e.Count("exceptions_seen", len(rig.Probe.Of("exception")))
	}
	e.Count("class:"+class, 1)
	multi := 0
	for _, ev := range rig.Conn.Log {
		if isWriteEv(ev.Kind) {
			multi++
		}
	}
	if multi > len(msgs) {
		e.Count("runs_with_multi_write_messages", 1)
	}
	rig.Teardown()
}

//go:norace
func clip(b []byte, n int) []byte {
	if len(b) > n {
		return b[:n]
	}
	return b
}
