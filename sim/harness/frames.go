package harness

import (
	"encoding/binary"
	"fmt"

	netty "github.com/go-netty/go-netty"
	"github.com/go-netty/go-netty/codec/frame"
)

// Frame codec kinds.
const (
	fkLengthField = iota // LengthFieldCodec with its built-in encoder
	fkPrepender          // stand-alone LengthFieldPrepender + matching LengthFieldCodec decoder
	fkLFRef              // LengthFieldCodec decoder configuration the shipped encoder cannot produce (offset / adjustment): wire from the reference encoder
	fkVarint
	fkDelimiter
	fkFixed
	nFrameKinds
)

var fkNames = []string{"length-field", "prepender+length-field", "length-field(offset/adjust)", "varint", "delimiter", "fixed-length"}

// FrameSpec is one codec configuration together with the harness' own reference encoder/decoder
// (written independently of the codec under test).
type FrameSpec struct {
	Kind     int
	Order    binary.ByteOrder
	OrderLE  bool
	FieldLen int
	Offset   int
	Adjust   int // decoder's lengthAdjustment
	Strip    int
	Max      int
	PAdjust  int  // prepender's lengthAdjustment
	PIncl    bool // prepender's lengthIncludesLengthFieldLength
	Delim    string
	StripDelim bool
	Fixed    int
}

func (s *FrameSpec) String() string {
	ord := "BE"
	if s.OrderLE {
		ord = "LE"
	}
	switch s.Kind {
	case fkLengthField:
		return fmt.Sprintf("length-field(%s,field=%d,strip=%d,max=%d)", ord, s.FieldLen, s.Strip, s.Max)
	case fkPrepender:
		return fmt.Sprintf("prepender(%s,field=%d,adjust=%d,includes-field=%v)+length-field(adjust=%d,strip=%d,max=%d)", ord, s.FieldLen, s.PAdjust, s.PIncl, s.Adjust, s.Strip, s.Max)
	case fkLFRef:
		return fmt.Sprintf("length-field(%s,offset=%d,field=%d,adjust=%d,strip=%d,max=%d)", ord, s.Offset, s.FieldLen, s.Adjust, s.Strip, s.Max)
	case fkVarint:
		return fmt.Sprintf("varint(max=%d)", s.Max)
	case fkDelimiter:
		return fmt.Sprintf("delimiter(%q,strip=%v,max=%d)", s.Delim, s.StripDelim, s.Max)
	}
	return fmt.Sprintf("fixed-length(%d)", s.Fixed)
}

// Class is the short configuration class used in violation signatures.
func (s *FrameSpec) Class() string {
	switch s.Kind {
	case fkLengthField, fkPrepender, fkLFRef:
		return fmt.Sprintf("%s,field=%d", fkNames[s.Kind], s.FieldLen)
	}
	return fkNames[s.Kind]
}

// drawFrameSpec draws a codec configuration from the tape.
//
//go:norace
func drawFrameSpec(e *Env) *FrameSpec {
	s := &FrameSpec{Kind: e.P(nFrameKinds), Order: binary.BigEndian}
	if e.P(2) == 1 {
		s.Order, s.OrderLE = binary.LittleEndian, true
	}
	s.FieldLen = []int{2, 1, 4, 8}[e.P(4)]
	s.Max = []int{1 << 20, 300, 70000, 4100}[e.P(4)]
	hdr := s.FieldLen
	switch s.Kind {
	case fkLengthField:
		s.Strip = []int{hdr, 0, 1, hdr + 2, hdr + 7}[e.P(5)] // also strip counts that reach into the body
	case fkPrepender:
		s.PAdjust = []int{0, 3, -1}[e.P(3)]
		s.PIncl = e.P(2) == 1
		s.Adjust = -s.PAdjust
		if s.PIncl {
			s.Adjust -= s.FieldLen
		}
		s.Strip = []int{hdr, 0}[e.P(2)]
	case fkLFRef:
		s.Offset = []int{2, 0, 5}[e.P(3)]
		s.Adjust = []int{0, 2, -1 * (s.Offset + s.FieldLen)}[e.P(3)]
		hdr = s.Offset + s.FieldLen
		s.Strip = []int{hdr, 0, s.Offset, hdr + 3}[e.P(4)]
	case fkDelimiter:
		s.Delim = []string{"$", "\r\n", "ab", "aab", "--\n", "abac", "aaa"}[e.P(7)]
		s.StripDelim = e.P(2) == 0
	case fkFixed:
		s.Fixed = []int{8, 1, 1024, 1025, 3000}[e.P(5)]
	}
	return s
}

// Codec builds the codec under test (decoder side, and encoder side where the shipped encoder applies).
//
//go:norace
func (s *FrameSpec) Codec() netty.Handler {
	switch s.Kind {
	case fkLengthField:
		return frame.LengthFieldCodec(s.Order, s.Max, 0, s.FieldLen, 0, s.Strip)
	case fkPrepender, fkLFRef:
		return frame.LengthFieldCodec(s.Order, s.Max, s.Offset, s.FieldLen, s.Adjust, s.Strip)
	case fkVarint:
		return frame.VarintLengthFieldCodec(s.Max)
	case fkDelimiter:
		return frame.DelimiterCodec(s.Max, s.Delim, s.StripDelim)
	}
	return frame.FixedLengthCodec(s.Fixed)
}

// Encoder is the shipped encoder for this configuration (nil: only the reference encoder can produce the wire).
//
//go:norace
func (s *FrameSpec) Encoder() netty.Handler {
	switch s.Kind {
	case fkPrepender:
		return frame.LengthFieldPrepender(s.Order, s.FieldLen, s.PAdjust, s.PIncl)
	case fkLFRef:
		return nil
	}
	return s.Codec()
}

//go:norace
func (s *FrameSpec) putLen(v uint64) []byte {
	b := make([]byte, s.FieldLen)
	switch s.FieldLen {
	case 1:
		b[0] = byte(v)
	case 2:
		s.Order.PutUint16(b, uint16(v))
	case 4:
		s.Order.PutUint32(b, uint32(v))
	case 8:
		s.Order.PutUint64(b, v)
	}
	return b
}

// fieldCapacity is the largest value the length field can hold.
//
//go:norace
func (s *FrameSpec) fieldCapacity() uint64 {
	if s.FieldLen >= 8 {
		return 1<<63 - 1
	}
	return 1<<(8*uint(s.FieldLen)) - 1
}

// RefEncode is the reference wire form of one payload; ok=false if the payload cannot be represented
// (length field too narrow, negative field value): the encoder must then reject it.
//
//go:norace
func (s *FrameSpec) RefEncode(p []byte) (wire []byte, ok bool) {
	switch s.Kind {
	case fkLengthField, fkPrepender, fkLFRef:
		// decoder: total = value + Adjust + Offset + FieldLen; body follows the length field
		v := int64(len(p)) - int64(s.Adjust)
		if s.Kind == fkPrepender {
			v = int64(len(p)) + int64(s.PAdjust)
			if s.PIncl {
				v += int64(s.FieldLen)
			}
		}
		if v < 0 || uint64(v) > s.fieldCapacity() {
			return nil, false
		}
		for i := 0; i < s.Offset; i++ {
			wire = append(wire, byte(0xF0+i))
		}
		wire = append(wire, s.putLen(uint64(v))...)
		return append(wire, p...), true
	case fkVarint:
		h := make([]byte, binary.MaxVarintLen64)
		n := binary.PutUvarint(h, uint64(len(p)))
		return append(h[:n], p...), true
	case fkDelimiter:
		return append(append([]byte(nil), p...), s.Delim...), true
	}
	return append([]byte(nil), p...), len(p) == s.Fixed
}

// Delivered is what the decoder must hand downstream for a frame carrying payload p.
//
//go:norace
func (s *FrameSpec) Delivered(p []byte) []byte {
	w, _ := s.RefEncode(p)
	switch s.Kind {
	case fkLengthField, fkPrepender, fkLFRef:
		if s.Strip > len(w) {
			return nil
		}
		return w[s.Strip:]
	case fkDelimiter:
		if s.StripDelim {
			return p
		}
		return w
	}
	return p
}

// Admissible: the payload is inside the codec's contract (representable, within the maximum frame size,
// accepted by the decoder's own validation).
//
//go:norace
func (s *FrameSpec) Admissible(p []byte) bool {
	w, ok := s.RefEncode(p)
	if !ok {
		return false
	}
	switch s.Kind {
	case fkLengthField, fkPrepender, fkLFRef:
		return len(w) <= s.Max && s.Strip <= len(w)
	case fkVarint:
		return len(p) <= s.Max
	case fkDelimiter:
		return len(w) <= s.Max
	}
	return true
}

// framePayload builds a payload free of every delimiter character.
//
//go:norace
func framePayload(id, size int) []byte {
	if size == 0 {
		return []byte{}
	}
	return msgPayload(id, size) // alphabet a-z, A-Z, 0-9: free of '$', CR, LF ... but "ab" can occur
}

//go:norace
func containsSeq(p []byte, d string) bool {
	for i := 0; i+len(d) <= len(p); i++ {
		if string(p[i:i+len(d)]) == d {
			return true
		}
	}
	return false
}

// delimFree rewrites p so that the delimiter occurs in p+delimiter only at the very end: the payload may
// contain delimiter characters and may end in a proper prefix of the delimiter (the interesting case for
// decoders that match incrementally), but never the whole sequence.
//
//go:norace
func delimFree(p []byte, d string) []byte {
	// sprinkle delimiter characters into the payload, deterministically from its content
	for i := range p {
		if i > 1 && (int(p[i])+i)%5 == 0 {
			p[i] = d[(int(p[i])+i)%len(d)]
		}
	}
	if len(p) > 2 && len(d) > 1 && p[1]%3 == 1 {
		copy(p, d[1:]) // start with a proper suffix of the delimiter
	}
	if len(p) >= len(d) && len(d) > 1 && p[0]%3 == 0 {
		copy(p[len(p)-(len(d)-1):], d[:len(d)-1]) // end in the longest proper prefix of the delimiter
	}
	for guard := 0; guard < 4*len(p)+8; guard++ {
		w := append(append([]byte(nil), p...), d...)
		idx := -1
		for i := 0; i+len(d) <= len(w); i++ {
			if string(w[i:i+len(d)]) == d {
				idx = i
				break
			}
		}
		if idx < 0 || idx >= len(p) {
			return p
		}
		// break this occurrence by changing one payload byte inside it to a byte foreign to the delimiter
		k := idx + len(d) - 1
		if k >= len(p) {
			k = len(p) - 1
		}
		p[k] = 'z'
	}
	for i := range p {
		p[i] = 'z'
	}
	return p
}

// RefDecode is the reference decoder: the frames (in delivered form) that are completely contained in stream,
// in order, up to the first incomplete or malformed frame.
//
//go:norace
func (s *FrameSpec) RefDecode(stream []byte) (frames [][]byte, ends []int) {
	pos := 0
	for pos < len(stream) {
		rest := stream[pos:]
		switch s.Kind {
		case fkLengthField, fkPrepender, fkLFRef:
			hdr := s.Offset + s.FieldLen
			if len(rest) < hdr {
				return
			}
			var v uint64
			f := rest[s.Offset:hdr]
			switch s.FieldLen {
			case 1:
				v = uint64(f[0])
			case 2:
				v = uint64(s.Order.Uint16(f))
			case 4:
				v = uint64(s.Order.Uint32(f))
			case 8:
				v = s.Order.Uint64(f)
			}
			if v > 1<<62 {
				return
			}
			total := int64(v) + int64(s.Adjust) + int64(hdr)
			if total < int64(hdr) || total > int64(s.Max) || int64(s.Strip) > total || total > int64(len(rest)) {
				return
			}
			frames = append(frames, rest[s.Strip:total])
			pos += int(total)
		case fkVarint:
			v, n := binary.Uvarint(rest)
			if n <= 0 || v > uint64(s.Max) || uint64(len(rest)-n) < v {
				return
			}
			frames = append(frames, rest[n:n+int(v)])
			pos += n + int(v)
		case fkDelimiter:
			idx := -1
			for i := 0; i+len(s.Delim) <= len(rest) && i+len(s.Delim) <= s.Max; i++ {
				if string(rest[i:i+len(s.Delim)]) == s.Delim {
					idx = i
					break
				}
			}
			if idx < 0 {
				return
			}
			if s.StripDelim {
				frames = append(frames, rest[:idx])
			} else {
				frames = append(frames, rest[:idx+len(s.Delim)])
			}
			pos += idx + len(s.Delim)
		default:
			if len(rest) < s.Fixed {
				return
			}
			frames = append(frames, rest[:s.Fixed])
			pos += s.Fixed
		}
		ends = append(ends, pos)
	}
	return
}
