// Package harness holds the scenarios and oracles, one family per property (DESIGN.md 2, 3).
package harness

import (
	"fmt"
	"sort"
	"strings"
	"time"

	netty "github.com/go-netty/go-netty"
	"github.com/go-netty/go-netty/verifsim/simrt"
)

// Harness sites (reserved range 40..99).
const (
	SiteStep   = 40 // generic step of a harness client task
	SiteInvoke = 41
	SiteProbe  = 42
	SiteDelay  = 43
	SiteHandler = 44
)

func init() {
	simrt.RegisterSite(SiteStep, "harness:step")
	simrt.RegisterSite(SiteInvoke, "harness:invoke")
	simrt.RegisterSite(SiteProbe, "harness:probe")
	simrt.RegisterSite(SiteDelay, "harness:delay")
	simrt.RegisterSite(SiteHandler, "harness:handler")
}

// Violation is one oracle failure.
type Violation struct {
	Prop   string `json:"prop"`
	Clause string `json:"clause"`
	Class  string `json:"class"`
	Detail string `json:"detail"`
}

// Sig is the violation signature used for minimisation ("same violation class") and known-findings matching.
func (v Violation) Sig() string { return v.Prop + ":" + v.Clause + ":" + v.Class }

type kv struct {
	K string
	V int
}

// Env is the per-run environment handed to a scenario.
type Env struct {
	Sim   *simrt.Sim
	Tape  *simrt.Tape
	Prop  string
	Viol  []Violation
	count []kv
	Desc  []string // human-readable scenario description (parameters), for samples and replays
	Notes []string // abridged history for samples
	Inconclusive string
	End   string
	execN int
	Verbose bool
	Mute    bool // oracles of borrowed scenario families are silent (C12 judges only the race detector)
}

//go:norace
func (e *Env) Violate(clause, class, format string, args ...interface{}) {
	if e.Mute {
		return
	}
	v := Violation{Prop: e.Prop, Clause: clause, Class: class, Detail: fmt.Sprintf(format, args...)}
	for _, x := range e.Viol {
		if x.Sig() == v.Sig() {
			return // one per signature and run
		}
	}
	e.Viol = append(e.Viol, v)
}

// Count bumps a named counter (fault kinds fired, probes).
//
//go:norace
func (e *Env) Count(name string, n int) {
	if n == 0 {
		return
	}
	for i := range e.count {
		if e.count[i].K == name {
			e.count[i].V += n
			return
		}
	}
	e.count = append(e.count, kv{name, n})
}

// P draws a scenario parameter in [0,n) from the tape (0 is the simplest value by convention).
//
//go:norace
func (e *Env) P(n int) int { return e.Tape.Choose(simrt.KParam, n) }

// PB draws a parameter that is 0 with probability 1-p.
//
//go:norace
func (e *Env) PB(n int, p float64) int { return e.Tape.ChooseBiased(simrt.KParam, n, p) }

//go:norace
func (e *Env) Describe(format string, args ...interface{}) {
	e.Desc = append(e.Desc, fmt.Sprintf(format, args...))
}

//go:norace
func (e *Env) Note(format string, args ...interface{}) {
	if len(e.Notes) < 400 {
		e.Notes = append(e.Notes, fmt.Sprintf(format, args...))
	}
}

// Step is a preemption point of a harness client task.
//
//go:norace
func (e *Env) Step() { simrt.Yield(SiteStep) }

// Go starts a harness client task.
//
//go:norace
func (e *Env) Go(name string, f func()) *simrt.Task { return e.Sim.Spawn(name, f) }

// Executor is the netty.Executor of simulated channels: every action is a new task; its start can be delayed
// by a tape-chosen amount of fake time ("executor start delayed arbitrarily").
type Executor struct {
	env   *Env
	Delay bool
	Tasks []*simrt.Task
}

var execDelays = []time.Duration{0, time.Millisecond, 150 * time.Millisecond, 1200 * time.Millisecond}

//go:norace
func (x *Executor) Exec(a netty.Action) {
	x.env.execN++
	d := time.Duration(0)
	if x.Delay {
		d = execDelays[x.env.Tape.ChooseBiased(simrt.KDelay, len(execDelays), 0.15)]
	}
	if d > 0 {
		x.env.Count("exec_start_delayed", 1)
	}
	t := x.env.Sim.Spawn(fmt.Sprintf("exec%d", x.env.execN), func() {
		if d > 0 {
			simrt.Sleep(SiteDelay, d)
		}
		a()
	})
	x.Tasks = append(x.Tasks, t)
}

//go:norace
func (e *Env) NewExecutor(delay bool) *Executor { return &Executor{env: e, Delay: delay} }

// RunToEnd runs the scheduler and classifies bound hits as inconclusive.
//
//go:norace
func (e *Env) RunToEnd() string {
	r := e.Sim.Run()
	e.End = r
	if r == simrt.EndSteps || r == simrt.EndHorizon {
		e.Inconclusive = r
	}
	return r
}

// EscapedPanics reports tasks that died by panic: "the process would have crashed".
//
//go:norace
func (e *Env) EscapedPanics() []*simrt.Task {
	var out []*simrt.Task
	for _, t := range e.Sim.Tasks() {
		if t.Panic != nil {
			out = append(out, t)
		}
	}
	return out
}

//go:norace
func (e *Env) Counters() map[string]int {
	m := map[string]int{}
	for _, c := range e.count {
		m[c.K] = c.V
	}
	return m
}

//go:norace
func errStr(err error) string {
	if err == nil {
		return "<nil>"
	}
	return err.Error()
}

//go:norace
func short(b []byte) string {
	if len(b) <= 12 {
		return fmt.Sprintf("%x", b)
	}
	return fmt.Sprintf("%x..(%d)", b[:12], len(b))
}

//go:norace
func sortedKeys(m map[string]int) []string {
	ks := make([]string, 0, len(m))
	for k := range m {
		ks = append(ks, k)
	}
	sort.Strings(ks)
	return ks
}

//go:norace
func join(ss []string) string { return strings.Join(ss, "; ") }

// NoteConn appends an abridged transport log to the run's notes (used for evidence samples and replays).
//
//go:norace
func (e *Env) NoteConn(name string, log []ConnEvLite) {
	for i, ev := range log {
		if i >= 40 {
			e.Note("%s: ... %d more transport events", name, len(log)-i)
			break
		}
		e.Note("%s @%d t=%v task%d %s", name, ev.Seq, ev.At, ev.Task, ev.What)
	}
}

// ConnEvLite is a printable transport event.
type ConnEvLite struct {
	Seq  int64
	At   time.Duration
	Task int
	What string
}

// PSize draws a size: three times out of four from the table of boundary values (index 0 = simplest), otherwise
// log-uniformly from [1, max] so that values between the table entries are reached as well.
//
//go:norace
func (e *Env) PSize(table []int, max int) int {
	if e.P(4) != 3 {
		return table[e.P(len(table))]
	}
	bits := 0
	for (1 << uint(bits+1)) <= max {
		bits++
	}
	b := e.P(bits + 1)
	v := (1 << uint(b)) + e.P(1<<uint(b))
	if v > max {
		v = max
	}
	return v
}

// PRange draws from [lo, hi], biased to lo.
//
//go:norace
func (e *Env) PRange(lo, hi int) int { return lo + e.P(hi-lo+1) }
