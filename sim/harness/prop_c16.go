package harness

import (
	"bytes"
	"encoding/binary"
	"encoding/json"
	"fmt"
	"io"
	"strings"

	netty "github.com/go-netty/go-netty"
	"github.com/go-netty/go-netty/codec/format"
	"github.com/go-netty/go-netty/codec/frame"
	"github.com/go-netty/go-netty/verifsim/simnet"
)

func init() { Register(&PropDef{ID: "C16", Run: runC16}) }

// objSink records the objects delivered below a format codec.
type objSink struct {
	Got     []interface{}
	Ex      []error
	Swallow bool // consume exceptions: the channel stays open after a rejected frame
}

//go:norace
func (s *objSink) add(v interface{}) { s.Got = append(s.Got, v) }

//go:norace
func (s *objSink) addEx(err error) { s.Ex = append(s.Ex, err) }

func (s *objSink) HandleRead(ctx netty.InboundContext, msg netty.Message) { s.add(msg) }
func (s *objSink) HandleException(ctx netty.ExceptionContext, ex netty.Exception) {
	s.addEx(ex)
	if s.Swallow {
		return
	}
	ctx.HandleException(ex)
}

// genJSON builds a JSON-representable object tree from the tape.
//
//go:norace
func genJSON(e *Env, depth int) map[string]interface{} {
	keys := []string{"a", "k", "näme", "quote\"key", "tab\tkey", "", "日本", "slash/\\", "k2", "eé"}
	m := map[string]interface{}{}
	n := e.P(4)
	if depth == 0 {
		n = 1 + e.P(4)
	}
	for i := 0; i < n; i++ {
		m[keys[e.P(len(keys))]] = genValue(e, depth)
	}
	return m
}

//go:norace
func genValue(e *Env, depth int) interface{} {
	k := e.P(10)
	if depth >= 3 && k >= 8 {
		k = 0
	}
	switch k {
	case 0:
		return json.Number(fmt.Sprint(e.P(100)))
	case 1:
		return json.Number([]string{"9007199254740993", "-9223372036854775808", "18446744073709551615", "123456789012345678901234567890"}[e.P(4)])
	case 2:
		return json.Number([]string{"0.1", "-1.5e10", "3.141592653589793", "1e-7"}[e.P(4)])
	case 3:
		return []string{"", "text", "with \"quotes\" and \\ backslash", "línea\nnueva", "  sep", strings.Repeat("long", 300)}[e.P(6)]
	case 4:
		return e.P(2) == 1
	case 5:
		return nil
	case 6, 7:
		var arr []interface{}
		for i, n := 0, e.P(4); i < n; i++ {
			arr = append(arr, genValue(e, depth+1))
		}
		if arr == nil {
			arr = []interface{}{}
		}
		return arr
	}
	return genJSON(e, depth+1)
}

//go:norace
func canon(v interface{}) string {
	b, err := json.Marshal(v)
	if err != nil {
		return "marshal-error:" + err.Error()
	}
	return string(b)
}

// canonFloat re-reads a canonical JSON text the way a decoder without UseNumber does.
//
//go:norace
func canonFloat(s string) string {
	var v interface{}
	if err := json.Unmarshal([]byte(s), &v); err != nil {
		return "unmarshal-error:" + err.Error()
	}
	return canon(v)
}

var c16Texts = []string{"hello", "", "\x00nul\x00", "\xff\xfe invalid utf8 \xc3", "日本語テキスト", "multi\nline", "a"}

//go:norace
func runC16(e *Env) {
	frameKind := []int{fkLengthField, fkVarint, fkDelimiter, fkLengthField}[e.P(4)]
	spec := &FrameSpec{Kind: frameKind, Order: binary.BigEndian, FieldLen: 4, Strip: 4, Max: 1 << 20, Delim: "\n", StripDelim: true}
	isJSON := e.P(2) == 1
	useNumber := e.P(2) == 0
	strict := e.P(2) == 1
	inject := e.P(3) == 2 // the peer injects reference-framed (possibly malformed) frames instead of using the encoder channel
	// message-per-read carrier: the variable-length codec hands its own reusable read buffer downstream; every
	// message arrives as one transport read (the peer waits until the previous one was delivered)
	variable := !isJSON && e.P(4) == 3
	if variable {
		inject = true
	}
	mk := func() []netty.Handler {
		if variable {
			return []netty.Handler{frame.VariableLengthCodec(8192), format.TextCodec()}
		}
		if isJSON {
			return []netty.Handler{spec.Codec(), format.JSONCodec(useNumber, strict)}
		}
		return []netty.Handler{spec.Codec(), format.TextCodec()}
	}
	dec := e.NewRig(ChanCfg{}, false)
	dec.Conn.Frag = e.P(4)
	if variable {
		dec.Conn.Frag = simnet.FragWhole
	}
	// Below the delimiter codec a frame is read completely before it is handed on, so a rejected frame leaves the
	// stream at the frame end: with a consuming exception handler the following frames must still decode.
	sink := &objSink{Swallow: inject && isJSON && frameKind == fkDelimiter && e.P(2) == 1}
	decPl := netty.NewPipeline()
	for _, h := range mk() {
		decPl.AddLast(h)
	}
	decPl.AddLast(sink)
	decCh := netty.NewChannel()(2, dec.Ctx, decPl, dec.Conn, dec.X)

	// expectations: kind 0 must be delivered (canonical form), 1 must raise, 2 either (valid object followed by trailing bytes)
	type expect struct {
		Kind  int
		Canon string
		Desc  string
	}
	var exps []expect
	var sendObjs []interface{} // via the encoder channel
	var frames [][]byte        // injected
	cutFrame := -1             // this frame's header declares more bytes than are sent; the stream ends after it
	n := 1 + e.P(5)
	concurrent := 1
	if !inject && e.P(4) == 3 {
		concurrent = 2 + e.P(5) // 2..6 writers
		n = concurrent + e.P(4)
	}
	for i := 0; i < n; i++ {
		if !isJSON {
			s := c16Texts[e.P(len(c16Texts))]
			if e.P(4) == 3 {
				s = strings.Repeat("x", []int{1023, 1024, 1025, 5000}[e.P(4)])
			}
			if frameKind == fkDelimiter {
				s = strings.ReplaceAll(s, "\n", "_")
			}
			if variable && s == "" {
				s = "v"
			}
			if concurrent > 1 {
				s = fmt.Sprintf("%03d:", i) + s
			}
			if inject && !variable && frameKind != fkDelimiter && cutFrame < 0 && len(s) > 0 && e.P(5) == 4 {
				// the frame's header declares 9 more bytes than arrive before the peer closes the connection cleanly
				cutFrame = i
				exps = append(exps, expect{1, s, fmt.Sprintf("text %q in a frame whose declared length is longer than what arrives before EOF", clipS(s, 30))})
			} else {
				exps = append(exps, expect{0, s, fmt.Sprintf("text %q", clipS(s, 30))})
			}
			sendObjs = append(sendObjs, s)
			frames = append(frames, []byte(s))
			continue
		}
		obj := genJSON(e, 0)
		if concurrent > 1 {
			obj["msg-id"] = json.Number(fmt.Sprint(i)) // every message unique: the received multiset is compared
		}
		c := canon(obj)
		if !useNumber {
			c = canonFloat(c)
		}
		body := []byte(canon(obj))
		kind := 0
		desc := "object " + clipS(string(body), 60)
		if inject {
			switch e.P(10) {
			case 9:
				body = append([]byte(`{"k":@`), bytes.Repeat([]byte{'x'}, []int{10, 600, 3000}[e.P(3)])...)
				body = append(body, '}')
				kind, desc = 1, fmt.Sprintf("malformed object of %d bytes with the syntax error near its start", len(body))
			case 6:
				body = append(body, '}')
				kind, desc = 2, "object followed by a stray closing brace"
			case 7:
				body = append(body, []byte(" ]junk")...)
				kind, desc = 2, "object followed by ' ]junk'"
			case 8:
				if frameKind != fkDelimiter && cutFrame < 0 {
					cutFrame = i
					kind, desc = 1, "complete object in a frame whose declared length is longer than what arrives before EOF"
				}
			case 1:
				body = body[:len(body)/2]
				kind, desc = 1, "truncated object"
			case 2:
				body = []byte(`[1,2,3]`)
				kind, desc = 1, "top-level array"
			case 3:
				tops := []string{`"just a string"`, `null`, ` null `, `17`, `true`, `-1.5e3`}
				body = []byte(tops[e.P(len(tops))])
				kind, desc = 1, "non-object top level: "+string(body)
			case 4:
				pad := []int{1, 40, 600, 5000}[e.P(4)]
				body = append(body, bytes.Repeat([]byte{' '}, pad)...)
				body = append(body, []byte(`{"x":1}`)...)
				kind, desc = 2, fmt.Sprintf("object followed by %d blanks and a second object in the same frame", pad)
			case 5:
				body = append(body, []byte(` trailing garbage`)...)
				kind, desc = 2, "object followed by trailing garbage"
			}
			if frameKind == fkDelimiter && bytes.Contains(body, []byte("\n")) {
				body = bytes.ReplaceAll(body, []byte("\n"), []byte(" "))
			}
		}
		exps = append(exps, expect{kind, c, desc})
		sendObjs = append(sendObjs, obj)
		frames = append(frames, body)
	}
	codecName := "text"
	if isJSON {
		codecName = fmt.Sprintf("json(useNumber=%v,disallowUnknown=%v)", useNumber, strict)
	}
	e.Describe("frame=%s codec=%s frames=%d injected-by-peer=%v read fragmentation=%d variable-length-carrier=%v exceptions-consumed=%v concurrent-writers=%d", fkNames[frameKind], codecName, n, inject, dec.Conn.Frag, variable, sink.Swallow, concurrent)
	for i, x := range exps {
		e.Describe("frame %d: %s (expect %s)", i, x.Desc, []string{"delivery", "exception", "delivery or exception"}[x.Kind])
	}
	var enc *Rig
	if !inject {
		cc := e.drawChan(true, []int{8, 2})
		if cc.Async {
			cc.Until = true
		}
		enc = e.NewRig(cc, false)
		encPl := netty.NewPipeline()
		for _, h := range mk() {
			encPl.AddLast(h)
		}
		encPl.AddLast(&Probe{env: e, Name: "enc", ReadTransport: true})
		enc.Pl = encPl
		enc.Ch = cc.Factory()(1, enc.Ctx, encPl, enc.Conn, enc.X)
		enc.Conn.Peer = dec.Conn
	}
	e.Go("main", func() {
		decPl.ServeChannel(decCh)
		if enc != nil {
			enc.Pl.ServeChannel(enc.Ch)
			if concurrent > 1 {
				// several goroutines write through the same codec instances at once: frames may arrive in any order
				for w := 0; w < concurrent; w++ {
					w := w
					e.Go(fmt.Sprintf("writer%d", w), func() {
						for i, o := range sendObjs {
							if i%concurrent == w {
								e.Step()
								enc.Ch.Write(o)
							}
						}
					})
				}
				return
			}
			e.Go("writer", func() {
				for _, o := range sendObjs {
					e.Step()
					enc.Ch.Write(o)
				}
			})
			return
		}
		e.Go("peer", func() {
			for i, b := range frames {
				if variable {
					e.Step()
					dec.Conn.Feed(b)
					// one message per read: wait until this one was consumed (well beyond the scheduler's fairness window
					// of 200 consecutive picks, otherwise two messages can be coalesced into one read)
					for w := 0; w < 3000 && len(sink.Got) <= i && len(sink.Ex) == 0; w++ {
						e.Step()
					}
					continue
				}
				w, ok := spec.RefEncode(b)
				if !ok {
					continue
				}
				if i == cutFrame {
					// declare 9 more bytes than will ever arrive, then end the stream
					w2, _ := spec.RefEncode(append(append([]byte(nil), b...), "123456789"...))
					w = w2[:len(w2)-9]
				}
				for len(w) > 0 {
					e.Step()
					k := len(w)
					if e.P(2) == 1 {
						k = 1 + e.P(len(w))
					}
					dec.Conn.Feed(w[:k])
					w = w[k:]
				}
				if i == cutFrame {
					e.Step()
					dec.Conn.EndInput(io.EOF, false)
					return
				}
			}
		})
	})
	e.RunToEnd()
	carrier := fkNames[frameKind]
	if variable {
		carrier = "variable-length"
	}
	cls := fmt.Sprintf("%s,%s", carrier, map[bool]string{true: "json", false: "text"}[isJSON])
	// ---- oracle ----
	if concurrent > 1 {
		used := make([]bool, len(exps))
		for _, g := range sink.Got {
			var got string
			if isJSON {
				got = canon(g)
			} else if s, ok := g.(string); ok {
				got = s
			}
			found := false
			for i, x := range exps {
				if !used[i] && x.Canon == got {
					used[i], found = true, true
					break
				}
			}
			if !found {
				e.Violate("round-trip", cls+",concurrent-writers", "with %d concurrent writers the receiver got %s, which is none of the (remaining) written messages", concurrent, clipS(got, 120))
				break
			}
		}
		if len(e.Viol) == 0 && (len(sink.Got) != len(exps) || len(sink.Ex) > 0) {
			e.Violate("round-trip", cls+",concurrent-writers,count", "%d messages written by %d concurrent writers, %d received, %d decoder exceptions", len(exps), concurrent, len(sink.Got), len(sink.Ex))
		}
		e.Count("concurrent_writer_runs", 1)
	}
	gi := 0
	stopped := concurrent > 1 // the sequential expectations do not apply to concurrent writers
	if !stopped && sink.Swallow {
		// exceptions are consumed and the channel goes on: a frame that may be delivered or rejected (kind 2) can carry
		// the same object as a later frame, so deliveries are not attributed greedily. The run is fine if ANY attribution
		// is consistent: must-deliver frames delivered in order, must-raise frames not delivered, one exception per
		// frame that was not delivered. Only if none exists the greedy walk below names the first difference.
		gots := make([]string, len(sink.Got))
		for k, g := range sink.Got {
			if isJSON {
				gots[k] = canon(g)
			} else if s, ok := g.(string); ok {
				gots[k] = s
			} else {
				gots[k] = fmt.Sprintf("<%T>", g)
			}
		}
		kinds := make([]int, len(exps))
		canons := make([]string, len(exps))
		for k, x := range exps {
			kinds[k], canons[k] = x.Kind, x.Canon
		}
		if c16Aligns(kinds, canons, gots, len(sink.Ex), 0, 0, 0) {
			stopped = true
			gi = len(sink.Got)
			e.Count("consumed_exception_runs_with_consistent_attribution", 1)
		}
	}
	for i, x := range exps {
		if stopped {
			break
		}
		var got string
		have := gi < len(sink.Got)
		if have {
			if isJSON {
				got = canon(sink.Got[gi])
			} else if s, ok := sink.Got[gi].(string); ok {
				got = s
			} else {
				got = fmt.Sprintf("<%T>", sink.Got[gi])
			}
		}
		switch x.Kind {
		case 0:
			if !have {
				if len(sink.Ex) > 0 {
					e.Violate("round-trip", cls+",rejected", "frame %d (%s) was not delivered; the decoder raised %q", i, x.Desc, sink.Ex[0])
				} else {
					e.Violate("round-trip", cls+",missing", "frame %d (%s) was never delivered", i, x.Desc)
				}
				stopped = true
			} else if got != x.Canon {
				e.Violate("round-trip", cls+",differs", "frame %d: received %s, sent %s", i, clipS(got, 120), clipS(x.Canon, 120))
				stopped = true
			} else {
				gi++
			}
		case 1:
			// must raise; nothing may be delivered for it
			if len(sink.Ex) == 0 {
				e.Violate("malformed-raises", cls, "frame %d (%s) raised no exception (deliveries so far: %d)", i, x.Desc, len(sink.Got))
				stopped = true
				break
			}
			if !sink.Swallow {
				// the channel closes (unhandled exception), so nothing follows
				if len(sink.Got) > gi {
					e.Violate("malformed-raises", cls+",delivered", "frame %d (%s) was delivered as %s", i, x.Desc, clipS(got, 80))
				}
				stopped = true
			}
			// with a consuming exception handler the channel stays open: the next expectations are matched against
			// the following deliveries (a delivery for this frame would shift them and show up as a difference)
		case 2:
			if have && got == x.Canon {
				gi++ // delivered the leading object: the rest of the frame must have been skipped (checked by what follows)
			} else if sink.Swallow {
				// rejected (allowed) and the channel stays open: whatever was delivered next belongs to the following frames
			} else if have {
				e.Violate("stream-position", cls, "after frame %d (%s) the decoder delivered %s: the stream position is not at the frame end", i, x.Desc, clipS(got, 80))
				stopped = true
			} else {
				stopped = true // rejected: fine
			}
		}
	}
	if !stopped && len(sink.Got) > gi {
		e.Violate("stream-position", cls+",extra", "%d messages were delivered for %d frames", len(sink.Got), len(exps))
	}
	e.Count("class:"+cls, 1)
	e.Count("objects_delivered", len(sink.Got))
	e.Count("decoder_exceptions", len(sink.Ex))
	e.Count("short_reads_fired", dec.Conn.Fired.ShortReads)
	e.Go("teardown", func() {
		decCh.Close(fmt.Errorf("teardown"))
		if enc != nil {
			enc.Ch.Close(fmt.Errorf("teardown"))
		}
	})
	e.Sim.Run()
}

var _ = simnet.FragWhole

// c16Aligns: is there an attribution of the deliveries to the frames that satisfies every frame's expectation?
//
//go:norace
func c16Aligns(kinds []int, canons, gots []string, nEx, i, j, ex int) bool {
	if i == len(kinds) {
		return j == len(gots) && ex == nEx
	}
	delivered := j < len(gots) && gots[j] == canons[i]
	switch kinds[i] {
	case 0:
		return delivered && c16Aligns(kinds, canons, gots, nEx, i+1, j+1, ex)
	case 1:
		return c16Aligns(kinds, canons, gots, nEx, i+1, j, ex+1)
	}
	return (delivered && c16Aligns(kinds, canons, gots, nEx, i+1, j+1, ex)) || c16Aligns(kinds, canons, gots, nEx, i+1, j, ex+1)
}

//go:norace
func clipS(s string, n int) string {
	if len(s) > n {
		return s[:n] + "..."
	}
	return s
}
