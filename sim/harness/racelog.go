package harness

import (
	"fmt"
	"os"
	"path/filepath"
	"regexp"
	"strings"
)

// RaceReport is one ThreadSanitizer report reduced to the two conflicting accesses.
type RaceReport struct {
	A, B     string // innermost non-runtime frame of each access: "func file:line"
	RepoA    bool   // frame lies in the repository (not in verifsim)
	RepoB    bool
	Sig      string
	Raw      string
}

var raceLogOff int64

// raceLogPath: GORACE log_path=<prefix> makes the runtime write to <prefix>.<pid>.
func raceLogPath() string {
	g := os.Getenv("GORACE")
	for _, f := range strings.Fields(g) {
		if strings.HasPrefix(f, "log_path=") {
			return fmt.Sprintf("%s.%d", strings.TrimPrefix(f, "log_path="), os.Getpid())
		}
	}
	return ""
}

var frameRe = regexp.MustCompile(`^\s+(\S+)\(\)\s*$`)

// isModuleFn: the function belongs to a module (import path with a dot in its first element), not to the standard library.
func isModuleFn(fn string) bool {
	first := fn
	if k := strings.Index(first, "/"); k >= 0 {
		first = first[:k]
		return strings.Contains(first, ".")
	}
	return false
}

// CollectRaces parses the reports appended to the race log since the last call.
func CollectRaces() []RaceReport {
	p := raceLogPath()
	if p == "" {
		return nil
	}
	data, err := os.ReadFile(p)
	if err != nil || int64(len(data)) <= raceLogOff {
		return nil
	}
	text := string(data[raceLogOff:])
	raceLogOff = int64(len(data))
	var out []RaceReport
	for _, rep := range strings.Split(text, "==================") {
		if !strings.Contains(rep, "WARNING: DATA RACE") {
			continue
		}
		lines := strings.Split(rep, "\n")
		var accs [][2]string // (func, file:line)
		var owners []string  // per access: the nearest frame that is not standard-library code (who made the access)
		for i := 0; i < len(lines); i++ {
			l := lines[i]
			if strings.HasPrefix(l, "Read at") || strings.HasPrefix(l, "Write at") || strings.HasPrefix(l, "Previous read at") || strings.HasPrefix(l, "Previous write at") ||
				strings.HasPrefix(l, "Atomic") || strings.HasPrefix(l, "Previous atomic") {
				// first non-runtime frame below
				for j := i + 1; j+1 < len(lines) && strings.TrimSpace(lines[j]) != ""; j += 2 {
					m := frameRe.FindStringSubmatch(lines[j])
					if m == nil {
						break
					}
					fn := m[1]
					if strings.HasPrefix(fn, "runtime.") || strings.HasPrefix(fn, "internal/") || strings.HasPrefix(fn, "sync.") || strings.HasPrefix(fn, "sync/atomic.") {
						continue
					}
					loc := strings.TrimSpace(lines[j+1])
					if k := strings.Index(loc, " +0x"); k >= 0 {
						loc = loc[:k]
					}
					accs = append(accs, [2]string{fn, loc})
					// an access inside the standard library (bufio, bytes, ...) belongs to whoever called into it
					owner := fn
					for k := j; k+1 < len(lines) && strings.TrimSpace(lines[k]) != ""; k += 2 {
						mm := frameRe.FindStringSubmatch(lines[k])
						if mm == nil {
							break
						}
						if isModuleFn(mm[1]) {
							owner = mm[1]
							break
						}
					}
					owners = append(owners, owner)
					break
				}
			}
		}
		if len(accs) < 2 {
			out = append(out, RaceReport{Sig: "unparsed", Raw: rep})
			continue
		}
		isRepo := func(fn string) bool {
			return strings.HasPrefix(fn, "github.com/go-netty/go-netty") && !strings.Contains(fn, "/verifsim/")
		}
		shortFn := func(fn string) string {
			fn = strings.TrimPrefix(fn, "github.com/go-netty/go-netty")
			fn = strings.TrimPrefix(fn, "/")
			fn = strings.TrimPrefix(fn, ".")
			// closures: keep the enclosing function
			if k := strings.Index(fn, ".func"); k >= 0 {
				fn = fn[:k]
			}
			return fn
		}
		a, b := accs[0], accs[1]
		r := RaceReport{A: shortFn(a[0]) + " " + filepath.Base(a[1]), B: shortFn(b[0]) + " " + filepath.Base(b[1]), RepoA: isRepo(owners[0]), RepoB: isRepo(owners[1]), Raw: rep}
		name := func(i int) string {
			if owners[i] != accs[i][0] && isRepo(owners[i]) {
				return shortFn(owners[i]) + ">" + shortFn(accs[i][0]) // repository function > standard-library function making the access
			}
			return shortFn(accs[i][0])
		}
		r.A, r.B = name(0)+" "+filepath.Base(a[1]), name(1)+" "+filepath.Base(b[1])
		if !isModuleFn(a[0]) || !isModuleFn(b[0]) {
			// An access made inside the standard library counts for whoever called into it. Such a report is only
			// attributed to the repository if BOTH sides were made on behalf of repository code: objects that the
			// harness creates (error values, readers) and hands to the system cross tasks without the happens-before
			// edge a real program has (the scheduler's hand-offs are hidden from the detector on purpose), so a
			// harness-side access inside errors/fmt/bytes against a repository-side one is an artefact.
			both := r.RepoA && r.RepoB
			r.RepoA, r.RepoB = both, both
		}
		fa, fb := name(0), name(1)
		if fb < fa {
			fa, fb = fb, fa
		}
		r.Sig = fa + "<->" + fb
		out = append(out, r)
	}
	return out
}
