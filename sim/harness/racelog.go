package harness

import (
	"fmt"
	"os"
	"path/filepath"
	"regexp"
	"strings"
)

// RaceReport is one ThreadSanitizer report reduced to the two conflicting accesses.
type RaceReport struct {
	A, B     string // innermost non-runtime frame of each access: "func file:line"
	RepoA    bool   // frame lies in the repository (not in verifsim)
	RepoB    bool
	Sig      string
	Raw      string
}

var raceLogOff int64

// raceLogPath: GORACE log_path=<prefix> makes the runtime write to <prefix>.<pid>.
func raceLogPath() string {
	g := os.Getenv("GORACE")
	for _, f := range strings.Fields(g) {
		if strings.HasPrefix(f, "log_path=") {
			return fmt.Sprintf("%s.%d", strings.TrimPrefix(f, "log_path="), os.Getpid())
		}
	}
	return ""
}

var frameRe = regexp.MustCompile(`^\s+(\S+)\(\)\s*$`)

// CollectRaces parses the reports appended to the race log since the last call.
func CollectRaces() []RaceReport {
	p := raceLogPath()
	if p == "" {
		return nil
	}
	data, err := os.ReadFile(p)
	if err != nil || int64(len(data)) <= raceLogOff {
		return nil
	}
	text := string(data[raceLogOff:])
	raceLogOff = int64(len(data))
	var out []RaceReport
	for _, rep := range strings.Split(text, "==================") {
		if !strings.Contains(rep, "WARNING: DATA RACE") {
			continue
		}
		lines := strings.Split(rep, "\n")
		var accs [][2]string // (func, file:line)
		for i := 0; i < len(lines); i++ {
			l := lines[i]
			if strings.HasPrefix(l, "Read at") || strings.HasPrefix(l, "Write at") || strings.HasPrefix(l, "Previous read at") || strings.HasPrefix(l, "Previous write at") ||
				strings.HasPrefix(l, "Atomic") || strings.HasPrefix(l, "Previous atomic") {
				// first non-runtime frame below
				for j := i + 1; j+1 < len(lines) && strings.TrimSpace(lines[j]) != ""; j += 2 {
					m := frameRe.FindStringSubmatch(lines[j])
					if m == nil {
						break
					}
					fn := m[1]
					if strings.HasPrefix(fn, "runtime.") || strings.HasPrefix(fn, "internal/") || strings.HasPrefix(fn, "sync.") || strings.HasPrefix(fn, "sync/atomic.") {
						continue
					}
					loc := strings.TrimSpace(lines[j+1])
					if k := strings.Index(loc, " +0x"); k >= 0 {
						loc = loc[:k]
					}
					accs = append(accs, [2]string{fn, loc})
					break
				}
			}
		}
		if len(accs) < 2 {
			out = append(out, RaceReport{Sig: "unparsed", Raw: rep})
			continue
		}
		isRepo := func(fn string) bool {
			return strings.HasPrefix(fn, "github.com/go-netty/go-netty") && !strings.Contains(fn, "/verifsim/")
		}
		shortFn := func(fn string) string {
			fn = strings.TrimPrefix(fn, "github.com/go-netty/go-netty")
			fn = strings.TrimPrefix(fn, "/")
			fn = strings.TrimPrefix(fn, ".")
			// closures: keep the enclosing function
			if k := strings.Index(fn, ".func"); k >= 0 {
				fn = fn[:k]
			}
			return fn
		}
		a, b := accs[0], accs[1]
		r := RaceReport{A: shortFn(a[0]) + " " + filepath.Base(a[1]), B: shortFn(b[0]) + " " + filepath.Base(b[1]), RepoA: isRepo(a[0]), RepoB: isRepo(b[0]), Raw: rep}
		fa, fb := shortFn(a[0]), shortFn(b[0])
		if fb < fa {
			fa, fb = fb, fa
		}
		r.Sig = fa + "<->" + fb
		out = append(out, r)
	}
	return out
}
