package harness

import "context"

func init() {
	Register(&PropDef{ID: "C12", Run: runC12, Race: true})
	c12Families = append(c12Families, runC07Burst) // the sender's failure path against concurrent writers
}

// c12Families are the scenario families borrowed by C12: each exercises a group of concurrently usable
// operations with the framework's own tasks running. Their functional oracles are muted; the race detector
// is the only judge.
var c12Families []func(e *Env)

//go:norace
func runC12(e *Env) {
	n := 2 + len(c12Families)
	switch k := e.P(n); k {
	case 0:
		c12Channel(e)
	case 1:
		runC05(e)
	default:
		c12Families[k-2](e)
	}
}

// c12Channel: writes over every entry point, Trigger, IsActive, Context and Close, all overlapping.
//
//go:norace
func c12Channel(e *Env) {
	cfg := WCfg{Entries: allEntries, CtxModes: []int{CtxBackground, CtxNeverDone, CtxCancelled}}
	cfg.Chan = e.drawBuffered(e.drawChan(true, []int{2, 1, 8}))
	cfg.Writers = 1 + e.P(3)
	cfg.PerWriter = 1 + e.P(3)
	cfg.Pokers = e.P(3)
	cfg.Closers = 1 + e.P(2)
	cfg.CloseMode = 2
	switch e.P(3) {
	case 1:
		cfg.CloseErr = errSentinel
	case 2:
		cfg.CloseErr = context.Canceled
	}
	cfg.CloseHow = e.P(2)
	cfg.PostClose = e.P(3)
	cfg.Scribblers = e.P(2)
	h := e.RunWriters(cfg)
	h.countProbes(e)
	h.Rig.Teardown()
}
