package harness

import (
	"bytes"
	"context"
	"errors"
	"fmt"
	"io"
	"time"

	netty "github.com/go-netty/go-netty"
	"github.com/go-netty/go-netty/utils/pool/pbytes"
	"github.com/go-netty/go-netty/verifsim/simnet"
	"github.com/go-netty/go-netty/verifsim/simrt"
)

// Write entry points.
const (
	EWrite1 = iota
	EWritev
	ECtxWrite1
	ECtxWritev
	EWriterWrite
	EReadFrom
	EChWrite
	nEntries
)

var entryNames = []string{"Write1", "Writev", "CtxWrite1", "CtxWritev", "Writer.Write", "ReadFrom", "Channel.Write"}

// Context modes of the Ctx* entry points.
const (
	CtxBackground = iota
	CtxNeverDone
	CtxCancelled
	CtxDeadline
)

var ctxNames = []string{"background", "cancellable", "already-cancelled", "deadline"}

// WCall is one write call and what happened to it.
type WCall struct {
	Idx, Writer, Entry, Size, Parts, CtxMode int
	Phase                                   int // 0: before/without close, 1: issued after Close returned, 2: overlapping Close
	Want                                    []byte
	Inv, Ret                                int64
	InvAt, RetAt                            time.Duration
	N                                       int64
	Err                                     error
	Returned                                bool
	Panic                                   interface{}
	LastReadSeq                             int64 // ReadFrom: when the reader was last asked for (and returned) data
	BlockedAt                               int // site at which the scheduler saw the call blocked (0: never)
	WaitedMutex                             bool
	task                                    *simrt.Task
	ctxErrWant                              error
}

func (c *WCall) String() string {
	s := fmt.Sprintf("#%d w%d %s(%d bytes", c.Idx, c.Writer, entryNames[c.Entry], c.Size)
	if c.Entry == EWritev || c.Entry == ECtxWritev {
		s += fmt.Sprintf(" in %d parts", c.Parts)
	}
	if c.Entry == ECtxWrite1 || c.Entry == ECtxWritev {
		s += ", ctx=" + ctxNames[c.CtxMode]
	}
	s += ")"
	if c.Returned {
		s += fmt.Sprintf(" inv@%d ret@%d => (%d, %s)", c.Inv, c.Ret, c.N, errStr(c.Err))
	} else if c.Inv > 0 {
		s += fmt.Sprintf(" inv@%d not returned", c.Inv)
	}
	return s
}

var sizeTable = []int{7, 1, 0, 33, 300, 1023, 1024, 1025, 2047, 2048, 2049, 4096, 4097, 8192, 16385, 32768, 65535, 65536, 65537, 70001}

// WCfg configures one run of the writers family.
type WCfg struct {
	Chan       ChanCfg
	Writers    int
	PerWriter  int
	Entries    []int // admissible entry points
	BigSizes   bool
	CtxModes   []int
	Poison     bool // overwrite the caller's buffer right after the call returns
	Scribblers int
	// close behaviour
	CloseMode int // 0 none, 1 after all writers returned, 2 concurrently with the writers
	CloseErr  error
	CloseHow  int // 0 user task, 1 from a handler (user event), 2 parent context cancelled
	PostClose int // number of writes issued after Close returned
	Closers   int
	// sender
	StallSender bool
	ExecDelay   bool
	Stalls      bool
	Pokers      int // tasks that call IsActive / Context / Trigger concurrently
	SmallReaders bool // ReadFrom / reader messages carry at most one streaming chunk (1024 bytes)
	ReaderChunk  int  // > 0: ReadFrom's reader hands out at most this many bytes per Read
	ReaderShort  bool // ReadFrom's reader starts with a few short reads (sizes from the tape) and may deliver its last bytes together with io.EOF
}

type pokeEvent struct{}

// WHist is what the writers family records.
type WHist struct {
	Cfg      WCfg
	Rig      *Rig
	Calls    []*WCall
	CloseInv, CloseRet int64
	CloseInvAt time.Duration
	CloseCalled bool
	End      string
}

//go:norace
func fillPayload(idx, size int) []byte {
	b := make([]byte, size)
	if size == 0 {
		return b
	}
	r := simrt.NewRng(uint64(idx)*7919 + 17)
	for i := range b {
		b[i] = byte(r.Next())
	}
	b[0] = byte(idx + 1)
	return b
}

//go:norace
func poison(b []byte) {
	for i := range b {
		b[i] = 0xEE
	}
}

// drawCalls draws the call plan from the tape.
//
//go:norace
func (e *Env) drawCalls(cfg *WCfg, n, writer, phase int, calls *[]*WCall) []*WCall {
	var out []*WCall
	for i := 0; i < n; i++ {
		c := &WCall{Idx: len(*calls), Writer: writer, Phase: phase}
		c.Entry = cfg.Entries[e.P(len(cfg.Entries))]
		if cfg.BigSizes {
			c.Size = e.PSize(sizeTable, 70001)
		} else {
			c.Size = e.PSize(sizeTable[:8], 3000)
		}
		if cfg.SmallReaders && c.Entry == EReadFrom && c.Size > 1024 {
			c.Size = 1024
		}
		if c.Entry == EWritev || c.Entry == ECtxWritev {
			c.Parts = 1 + e.P(3)
		}
		if c.Entry == ECtxWrite1 || c.Entry == ECtxWritev {
			c.CtxMode = cfg.CtxModes[e.P(len(cfg.CtxModes))]
		}
		c.Want = fillPayload(c.Idx, c.Size)
		*calls = append(*calls, c)
		out = append(out, c)
	}
	return out
}

// split cuts b into n parts (some possibly empty).
//
//go:norace
func split(b []byte, n int) [][]byte {
	if n <= 1 {
		return [][]byte{b}
	}
	out := make([][]byte, 0, n)
	for i := 0; i < n; i++ {
		lo, hi := len(b)*i/n, len(b)*(i+1)/n
		if i == 1 {
			hi = lo // an empty element
			out = append(out, b[lo:hi])
			out = append(out, b[lo:len(b)*(i+1)/n])
			continue
		}
		out = append(out, b[lo:hi])
	}
	return out
}

// plainReader is the io.Reader handed to ReadFrom; with max > 0 it delivers at most that many bytes per Read
// (so that messages are streamed as several chunk writes). It records when each data-carrying Read was requested.
type plainReader struct {
	b       []byte
	call    *WCall
	env     *Env
	max     int   // > 0: at most this many bytes per Read
	plan    []int // sizes of the first reads
	eofWith bool  // the last bytes come together with io.EOF
}

func (r *plainReader) Read(p []byte) (int, error) {
	if len(r.b) == 0 {
		return 0, io.EOF
	}
	if r.max > 0 && len(p) > r.max {
		p = p[:r.max]
	}
	if len(r.plan) > 0 {
		if r.plan[0] < len(p) {
			p = p[:r.plan[0]]
		}
		r.plan = r.plan[1:]
	}
	r.call.noteRead(r.env)
	n := copy(p, r.b)
	r.b = r.b[n:]
	if len(r.b) == 0 && r.eofWith && n > 0 {
		return n, io.EOF
	}
	return n, nil
}

//go:norace
func (c *WCall) noteRead(e *Env) { c.LastReadSeq = e.Sim.NextEv() }

// invoke performs one write call from the calling task and records it.
func (h *WHist) invoke(c *WCall) {
	e := h.Rig.Env
	ch := h.Rig.Ch
	buf := append([]byte(nil), c.Want...) // the caller's buffer
	var cancel context.CancelFunc
	ctx := context.Background()
	switch c.CtxMode {
	case CtxNeverDone:
		ctx, cancel = context.WithCancel(ctx)
	case CtxCancelled:
		ctx, cancel = context.WithCancel(ctx)
		cancel()
		c.ctxErrWant = context.Canceled
	case CtxDeadline:
		e.Sim.TimeSensitive()
		ctx, cancel = context.WithTimeout(ctx, 300*time.Millisecond)
		c.ctxErrWant = context.DeadlineExceeded
	}
	c.begin(e)
	func() {
		defer func() {
			if r := recover(); r != nil {
				c.setPanic(r)
			}
		}()
		switch c.Entry {
		case EWrite1:
			n, err := ch.Write1(buf)
			c.setRes(int64(n), err)
		case EWritev:
			c.setRes(ch.Writev(split(buf, c.Parts)))
		case ECtxWrite1:
			n, err := ch.CtxWrite1(ctx, buf)
			c.setRes(int64(n), err)
		case ECtxWritev:
			c.setRes(ch.CtxWritev(ctx, split(buf, c.Parts)))
		case EWriterWrite:
			n, err := ch.Writer().Write(buf)
			c.setRes(int64(n), err)
		case EReadFrom:
			pr := &plainReader{b: buf, call: c, env: e, max: h.Cfg.ReaderChunk}
			if h.Cfg.ReaderShort {
				for i, n := 0, 1+e.P(3); i < n; i++ {
					pr.plan = append(pr.plan, []int{300, 1, 512, 513, 100, 1024}[e.P(6)])
				}
				pr.eofWith = e.P(2) == 1
			}
			c.setRes(ch.ReadFrom(pr))
		case EChWrite:
			err := ch.Write(buf)
			if err == nil {
				c.setRes(int64(len(buf)), nil)
			} else {
				c.setRes(0, err)
			}
		}
	}()
	c.finish(e)
	if cancel != nil {
		cancel()
	}
	if h.Cfg.Poison {
		poison(buf)
	}
}

//go:norace
func (c *WCall) begin(e *Env) {
	c.task = simrt.Me()
	c.Inv, c.InvAt = e.Sim.NextEv(), e.Sim.Now()
}

//go:norace
func (c *WCall) setRes(n int64, err error) { c.N, c.Err = n, err }

//go:norace
func (c *WCall) setPanic(r interface{}) { c.Panic = r }

//go:norace
func (c *WCall) finish(e *Env) {
	c.Ret, c.RetAt = e.Sim.NextEv(), e.Sim.Now()
	c.Returned = true
}

//go:norace
func (h *WHist) closeBegin(e *Env) {
	if h.CloseCalled {
		e.Sim.NextEv()
		return
	}
	h.CloseCalled = true
	h.CloseInv, h.CloseInvAt = e.Sim.NextEv(), e.Sim.Now()
}

//go:norace
func (h *WHist) closeEnd(e *Env) {
	if r := e.Sim.NextEv(); h.CloseRet == 0 {
		h.CloseRet = r // the first Close call that returned
	}
}

//go:norace
func decr(p *int) int { *p--; return *p }

// observe is the per-step hook: which calls does the scheduler see blocked.
//
//go:norace
func (h *WHist) observe() {
	for _, c := range h.Calls {
		if c.task != nil && !c.Returned && c.Inv > 0 {
			if c.task.Blocked() && c.BlockedAt == 0 {
				c.BlockedAt = c.task.BlockedSite()
			}
			if c.task.WaitingMutex() {
				c.WaitedMutex = true
			}
		}
	}
}

var errSentinel = errors.New("sentinel close error")

type closeEvent struct{}

// RunWriters executes one run of the writers family and returns its history (oracles are applied by the caller).
//
//go:norace
func (e *Env) RunWriters(cfg WCfg) *WHist {
	h := &WHist{Cfg: cfg}
	e.Sim.StallOK = cfg.Stalls
	rig := e.NewRig(cfg.Chan, cfg.ExecDelay)
	h.Rig = rig
	if cfg.StallSender {
		rig.Conn.Stalled = true
	}
	// a user event makes a handler close the channel (Close from inside a handler)
	rig.Probe.OnEvent = func(ctx netty.EventContext, ev netty.Event) {
		if _, ok := ev.(closeEvent); ok {
			ctx.Close(cfg.CloseErr)
		}
	}
	plans := make([][]*WCall, cfg.Writers)
	for w := 0; w < cfg.Writers; w++ {
		plans[w] = e.drawCalls(&cfg, cfg.PerWriter, w, 0, &h.Calls)
	}
	// every closer issues its own writes after its own Close call has returned
	nClosers := cfg.Closers
	if nClosers < 1 {
		nClosers = 1
	}
	posts := make([][]*WCall, nClosers)
	for i := range posts {
		posts[i] = e.drawCalls(&cfg, cfg.PostClose, 100+i, 1, &h.Calls)
	}
	if cfg.CloseMode == 2 {
		for _, p := range plans {
			for _, c := range p {
				c.Phase = 2
			}
		}
	}
	e.Describe("channel=%s writers=%d calls=%d close-mode=%d close-how=%d close-err=%s post-close-writes=%d stall-sender=%v exec-delay=%v poison=%v scribblers=%d stalls=%v",
		cfg.Chan, cfg.Writers, len(h.Calls), cfg.CloseMode, cfg.CloseHow, errStr(cfg.CloseErr), cfg.PostClose, cfg.StallSender, cfg.ExecDelay, cfg.Poison, cfg.Scribblers, cfg.Stalls)
	for _, c := range h.Calls {
		e.Describe("%s", c.String())
	}

	if cfg.CloseHow == 3 {
		rig.Probe.OnActive = func(ctx netty.ActiveContext) {
			h.closeBegin(e)
			ctx.Close(cfg.CloseErr)
			h.closeEnd(e)
			for _, c := range posts[0] {
				h.invoke(c) // issued right after Close returned, still inside the active event
			}
		}
	}
	doClose := func(who int) {
		if cfg.CloseHow == 3 {
			return
		}
		h.closeBegin(e)
		switch cfg.CloseHow {
		case 1:
			rig.Ch.Trigger(closeEvent{})
		case 2:
			rig.Cancel() // the read loop issues Close(nil) when it notices; not a synchronous close
		default:
			rig.Ch.Close(cfg.CloseErr)
		}
		h.closeEnd(e)
		for _, c := range posts[who] {
			c := c
			e.Step()
			h.invoke(c)
		}
	}
	remaining := cfg.Writers
	e.Go("main", func() {
		rig.Serve()
		for w := 0; w < cfg.Writers; w++ {
			w := w
			e.Go(fmt.Sprintf("writer%d", w), func() {
				for _, c := range plans[w] {
					e.Step()
					h.invoke(c)
				}
				if decr(&remaining) == 0 && cfg.CloseMode == 1 {
					for i := 0; i < cfg.Closers; i++ {
						i := i
						e.Go(fmt.Sprintf("closer%d", i), func() { doClose(i) })
					}
				}
			})
		}
		if cfg.CloseMode == 2 || (cfg.CloseMode == 1 && cfg.Writers == 0) {
			for i := 0; i < cfg.Closers; i++ {
				i := i
				e.Go(fmt.Sprintf("closer%d", i), func() { doClose(i) })
			}
		}
		for s := 0; s < cfg.Scribblers; s++ {
			s := s
			e.Go(fmt.Sprintf("scribbler%d", s), func() { scribble(e, s) })
		}
		for pk := 0; pk < cfg.Pokers; pk++ {
			e.Go(fmt.Sprintf("poker%d", pk), func() {
				for i := 0; i < 3; i++ {
					e.Step()
					switch e.P(4) {
					case 0:
						_ = rig.Ch.IsActive()
					case 1:
						_ = rig.Ch.Context().Err()
					case 2:
						rig.Ch.Trigger(pokeEvent{})
					case 3:
						_ = rig.Ch.Write(fillPayload(250, 3))
					}
				}
			})
		}
		if cfg.StallSender {
			e.Go("releaser", func() {
				simrt.Sleep(SiteDelay, time.Duration(200+e.P(4)*700)*time.Millisecond)
				e.Count("sender_released_after_stall", 1)
				rig.Conn.Release()
			})
		}
	})
	// observe calls that the scheduler sees blocked (C18)
	e.Sim.OnStep = h.observe
	h.End = e.RunToEnd()
	e.Sim.OnStep = nil
	for _, c := range h.Calls {
		e.Note("call %s", c.String())
	}
	if h.CloseCalled {
		e.Note("Close invoked @%d returned @%d", h.CloseInv, h.CloseRet)
	}
	e.NoteConn("transport", LiteLog(rig.Conn))
	return h
}

// scribble is a second user of the byte pool: it takes buffers of every size class, fills them with poison,
// holds them across preemption points and gives them back.
func scribble(e *Env, id int) {
	rounds := 2 + e.P(3)
	for i := 0; i < rounds; i++ {
		size := sizeTable[e.P(len(sizeTable))]
		if size == 0 {
			size = 1
		}
		e.Step()
		bp := pbytes.Get(size)
		b := (*bp)[:cap(*bp)]
		for j := range b {
			b[j] = 0xEE
		}
		e.Count("scribbler_got_buffer", 1)
		e.Step()
		for j := range b {
			b[j] = 0xDD
		}
		*bp = (*bp)[:0]
		pbytes.Put(bp)
	}
}

// ---- wire parsing ----------------------------------------------------------------------------------------

type wseg struct {
	Call  int
	Off   int
	EvSeq int64 // sequence number of the transport event that carried the first byte
}

// parseWire cuts the bytes handed to the transport into the payloads of the known calls (first byte = id).
//
//go:norace
func parseWire(conn *simnet.Conn, calls []*WCall) (segs []wseg, bad string) {
	segs, bad, _ = parseWireTail(conn, calls)
	return
}

// parseWireTail is parseWire that tells a payload cut short by the end of the transmitted bytes (cutTail) from
// other damage.
//
//go:norace
func parseWireTail(conn *simnet.Conn, calls []*WCall) (segs []wseg, bad string, cutTail bool) {
	wire := conn.Wire
	evAt := func(off int) int64 {
		for _, ev := range conn.Log {
			if (ev.Kind == simnet.EvWrite || ev.Kind == simnet.EvWritev || ev.Kind == simnet.EvWriteErr) && ev.N > 0 && off >= ev.Off && off < ev.Off+ev.N {
				return ev.Seq
			}
		}
		return 0
	}
	pos := 0
	for pos < len(wire) {
		id := int(wire[pos]) - 1
		if id < 0 || id >= len(calls) {
			return segs, fmt.Sprintf("byte at wire offset %d (0x%02x) starts no known payload", pos, wire[pos]), false
		}
		c := calls[id]
		if len(c.Want) == 0 {
			return segs, fmt.Sprintf("byte at wire offset %d (0x%02x) belongs to no payload (the call with that identifier wrote zero bytes)", pos, wire[pos]), false
		}
		if pos+len(c.Want) > len(wire) {
			if !bytes.Equal(wire[pos:], c.Want[:len(wire)-pos]) {
				return segs, fmt.Sprintf("payload of call %s is cut short at wire offset %d (wire ends at %d) and what is there differs from the caller's bytes", c, pos, len(wire)), false
			}
			return segs, fmt.Sprintf("payload of call %s is cut short at wire offset %d (wire ends at %d)", c, pos, len(wire)), true
		}
		if !bytes.Equal(wire[pos:pos+len(c.Want)], c.Want) {
			k := 0
			for k < len(c.Want) && wire[pos+k] == c.Want[k] {
				k++
			}
			return segs, fmt.Sprintf("payload of call %s differs from the caller's bytes at payload offset %d (wire offset %d): got 0x%02x want 0x%02x", c, k, pos+k, wire[pos+k], c.Want[k]), false
		}
		segs = append(segs, wseg{Call: id, Off: pos, EvSeq: evAt(pos)})
		pos += len(c.Want)
	}
	return segs, "", false
}

// transportEndedMidWrite: the last thing that happened on the sending side of the connection is a failed write or
// the close of the transport, i.e. nothing was transmitted after the point where the byte stream ends.
//
//go:norace
func transportEndedMidWrite(conn *simnet.Conn) bool {
	ended := false
	for _, ev := range conn.Log {
		switch {
		case ev.Kind == simnet.EvClose || ev.Kind == simnet.EvWriteErr:
			ended = true
		case isWriteEv(ev.Kind) && ev.N > 0 && ended:
			return false
		}
	}
	return ended
}

//go:norace
func isWriteEv(k int) bool { return k == simnet.EvWrite || k == simnet.EvWritev }

func classOf(c *WCall, cc ChanCfg) string {
	mode := "sync"
	if cc.Async {
		mode = "async"
	}
	return fmt.Sprintf("%s,%s", entryNames[c.Entry], mode)
}

// ---- oracles ---------------------------------------------------------------------------------------------

// OracleWireIntegrity: C01 (and C10): whole, unmodified, at most once, in order, nothing from failed calls.
//
//go:norace
func (h *WHist) OracleWireIntegrity(e *Env, orderClauses bool) []wseg {
	conn := h.Rig.Conn
	segs, bad, cutTail := parseWireTail(conn, h.Calls)
	if bad != "" && cutTail && h.Rig.Buffered && transportEndedMidWrite(conn) {
		// behind the buffering wrapper one payload is handed to the connection in several pieces; a transport that is
		// closed (or fails) between two of them ends the byte stream inside a payload. Whether the Close was allowed
		// to do that is C06's close clauses' question, not damage done to the payload.
		e.Count("stream_ended_inside_payload(buffered transport closed or failed mid-write)", 1)
		bad = ""
	}
	if bad != "" {
		e.Violate("intact", "wire-corrupt", "%s", bad)
		return segs
	}
	seenAt := make([]int, len(h.Calls))
	for i := range seenAt {
		seenAt[i] = -1
	}
	for i, s := range segs {
		c := h.Calls[s.Call]
		if seenAt[s.Call] >= 0 {
			e.Violate("at-most-once", "duplicate", "payload of %s appears twice on the wire (offsets %d and %d)", c, segs[seenAt[s.Call]].Off, s.Off)
			return segs
		}
		seenAt[s.Call] = i
		if c.Returned && c.Err != nil {
			e.Violate("error-no-bytes", classOf(c, h.Cfg.Chan), "%s returned an error but its payload is on the wire at offset %d", c, s.Off)
		}
		if c.Inv == 0 || s.EvSeq < c.Inv {
			e.Violate("intact", "phantom", "payload of %s on the wire before the call was made", c)
		}
	}
	if !orderClauses {
		return segs
	}
	// (a buffering transport cuts the stream wherever its buffer fills: there, transport writes need not end on
	// payload boundaries; the order clauses below still apply)
	// every transport write must end on a payload boundary ("at every moment a concatenation of whole payloads")
	bounds := make([]bool, len(conn.Wire)+1)
	bounds[0] = true
	for _, s := range segs {
		bounds[s.Off+len(h.Calls[s.Call].Want)] = true
	}
	for _, ev := range conn.Log {
		if h.Rig.Buffered {
			break
		}
		if isWriteEv(ev.Kind) && (ev.Off+ev.N >= len(bounds) || !bounds[ev.Off+ev.N]) {
			e.Violate("whole", "split-across-writes", "transport write ending at wire offset %d cuts a payload", ev.Off+ev.N)
		}
	}
	// per writer call order, and real-time order
	for i, a := range h.Calls {
		for j, b := range h.Calls {
			if i == j || !a.Returned || a.Err != nil || len(a.Want) == 0 || len(b.Want) == 0 {
				continue
			}
			before := (a.Writer == b.Writer && a.Idx < b.Idx) || (b.Inv > 0 && a.Ret < b.Inv)
			if !before || seenAt[b.Idx] < 0 {
				continue
			}
			if seenAt[a.Idx] < 0 {
				e.Violate("prefix-order", "gap", "%s was accepted before %s began, yet only the latter is on the wire", a, b)
			} else if seenAt[a.Idx] > seenAt[b.Idx] {
				e.Violate("prefix-order", "inversion", "%s was accepted before %s began but follows it on the wire (offsets %d > %d)", a, b, segs[seenAt[a.Idx]].Off, segs[seenAt[b.Idx]].Off)
			}
		}
	}
	for _, c := range h.Calls {
		if c.Returned && c.Err == nil && c.N != int64(len(c.Want)) {
			e.Violate("count", classOf(c, h.Cfg.Chan), "%s reported success with a wrong byte count", c)
		}
		if c.Panic != nil {
			e.Violate("no-panic", classOf(c, h.Cfg.Chan), "%s panicked: %v", c, c.Panic)
		}
	}
	return segs
}

// OracleNoStranded: C02, judged at quiescence.
//
//go:norace
func (h *WHist) OracleNoStranded(e *Env, segs []wseg) {
	if h.End != simrt.EndQuiescent && h.End != simrt.EndAllDone {
		return
	}
	on := make([]bool, len(h.Calls))
	for _, s := range segs {
		on[s.Call] = true
	}
	for _, c := range h.Calls {
		if c.Inv > 0 && !c.Returned {
			e.Violate("calls-return", classOf(c, h.Cfg.Chan), "at quiescence %s has not returned (task %s)", c, c.task.StateName())
		}
		if c.Returned && c.Err == nil && len(c.Want) > 0 && !on[c.Idx] {
			e.Violate("stranded", "accepted-never-sent", "at quiescence the payload of %s was never handed to the transport", c)
		}
	}
	if h.Rig.Conn.Unflushed > 0 && !h.Rig.Buffered {
		e.Violate("stranded", "unflushed", "at quiescence %d bytes handed to the transport were never flushed", h.Rig.Conn.Unflushed)
	}
}

// OracleGracefulClose: C06.
//
//go:norace
func (h *WHist) OracleGracefulClose(e *Env, segs []wseg) {
	conn := h.Rig.Conn
	if !h.CloseCalled {
		return
	}
	var closeEv *simnet.Ev
	for i := range conn.Log {
		if conn.Log[i].Kind == simnet.EvClose {
			closeEv = &conn.Log[i]
			break
		}
	}
	if closeEv == nil {
		return // Close did not get as far as the transport (judged by C05/C02)
	}
	if h.Cfg.Chan.Async && !h.Cfg.Chan.Until && closeEv.At-h.CloseInvAt >= time.Second {
		e.Count("c06_exempt_grace_period_elapsed", 1)
		return
	}
	on := make([]int64, len(h.Calls))
	for _, s := range segs {
		on[s.Call] = s.EvSeq
	}
	var lastSeg int64
	for _, c := range h.Calls {
		if !(c.Returned && c.Err == nil && c.Ret < h.CloseInv && len(c.Want) > 0) {
			continue
		}
		if on[c.Idx] == 0 || on[c.Idx] > closeEv.Seq {
			e.Violate("delivered-before-close", "accepted-payload-lost", "%s returned success before Close was invoked (@%d) but its payload was not handed to the transport before the transport was closed (@%d)", c, h.CloseInv, closeEv.Seq)
			continue
		}
		if on[c.Idx] > lastSeg {
			lastSeg = on[c.Idx]
		}
	}
	if lastSeg > 0 && !h.Rig.Buffered { // behind the buffering wrapper, bytes on the connection are flushed bytes by definition
		flushed := false
		for _, ev := range conn.Log {
			if ev.Kind == simnet.EvFlush && ev.Seq > lastSeg && ev.Seq < closeEv.Seq {
				flushed = true
			}
		}
		if !flushed {
			e.Violate("flushed-before-close", "no-flush", "payloads accepted before Close were written (@%d) but not flushed before the transport was closed (@%d)", lastSeg, closeEv.Seq)
		}
	}
	for _, ev := range conn.Log {
		if (isWriteEv(ev.Kind) || ev.Kind == simnet.EvWriteErr) && ev.Enter < closeEv.Seq && closeEv.Seq < ev.Seq && ev.Task != closeEv.Task {
			e.Violate("no-close-mid-batch", "close-during-write", "the transport was closed (@%d) while the sender was inside a transport write (@%d..@%d)", closeEv.Seq, ev.Enter, ev.Seq)
		}
	}
}

// OracleClosedWritesFail: C11.
//
//go:norace
func (h *WHist) OracleClosedWritesFail(e *Env, segs []wseg) {
	on := make([]bool, len(h.Calls))
	for _, s := range segs {
		on[s.Call] = true
	}
	ck := "nil"
	if h.Cfg.CloseErr != nil {
		ck = "non-nil"
	}
	for _, c := range h.Calls {
		// a streaming write that overlaps the Close: a chunk whose data was fetched from the reader after Close had
		// returned is a write issued on a closed channel and must fail, so the whole call must report an error
		if c.Phase == 2 && c.Entry == EReadFrom && c.Returned && h.CloseRet != 0 && c.LastReadSeq > h.CloseRet && c.Err == nil && c.Panic == nil {
			e.Violate("error-after-close", fmt.Sprintf("%s,close(%s),chunk-after-close", classOf(c, h.Cfg.Chan), ck), "%s fetched a chunk from its reader (@%d) after Close had returned (@%d) and still reported success", c, c.LastReadSeq, h.CloseRet)
		}
		if c.Phase != 1 || !c.Returned {
			continue
		}
		cls := fmt.Sprintf("%s,close(%s)", classOf(c, h.Cfg.Chan), ck)
		if c.Panic != nil {
			e.Violate("error-after-close", cls+",panic", "%s issued after Close returned panicked: %v", c, c.Panic)
			continue
		}
		if c.Err == nil {
			e.Violate("error-after-close", cls, "%s was issued after Close(%s) had returned (@%d) and reported success", c, errStr(h.Cfg.CloseErr), h.CloseRet)
		} else if c.N != 0 && c.Entry != EReadFrom {
			e.Violate("error-after-close", cls+",count", "%s issued after Close returned reports %d bytes written", c, c.N)
		}
		if on[c.Idx] {
			e.Violate("nothing-transmitted", cls, "payload of %s, issued after Close returned, reached the transport", c)
		}
	}
}

var evKindNames = []string{"?", "write-enter", "Write", "Writev", "write-error", "Flush", "flush-error", "Close", "Read", "read-error", "read-blocks"}

// LiteLog renders a connection log.
//
//go:norace
func LiteLog(c *simnet.Conn) []ConnEvLite {
	var out []ConnEvLite
	for _, ev := range c.Log {
		if ev.Kind == simnet.EvWriteEnter {
			continue
		}
		w := evKindNames[ev.Kind]
		switch ev.Kind {
		case simnet.EvWrite, simnet.EvWritev, simnet.EvWriteErr:
			w += fmt.Sprintf(" %d bytes at wire offset %d (buffers %v)", ev.N, ev.Off, ev.Bufs)
		case simnet.EvRead:
			w += fmt.Sprintf(" %d bytes at stream offset %d", ev.N, ev.Off)
		}
		if ev.Err != nil {
			w += " err=" + ev.Err.Error()
		}
		out = append(out, ConnEvLite{ev.Seq, ev.At, ev.Task, w})
	}
	return out
}
