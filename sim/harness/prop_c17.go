package harness

import (
	"bytes"
	"fmt"
	"net"

	"github.com/go-netty/go-netty/transport"
	"github.com/go-netty/go-netty/verifsim/simnet"
)

func init() { Register(&PropDef{ID: "C17", Run: runC17}) }

var bufSizes = []int{0, 1, 7, 16, 64, 4096}
var c17Sizes = []int{3, 0, 1, 6, 7, 8, 15, 16, 17, 63, 64, 65, 200, 4095, 4096, 4097}

type c17Op struct {
	Kind  int // 0 Write, 1 Writev, 2 Flush
	Data  [][]byte
	N     int64
	Err   error
	WireAfter int
	WrittenAfter int
}

//go:norace
func (o *c17Op) done(n int64, err error, wire, written int) { o.N, o.Err, o.WireAfter, o.WrittenAfter = n, err, wire, written }

//go:norace
func runC17(e *Env) {
	rs, ws := e.PSize(bufSizes, 5000), e.PSize(bufSizes, 5000)
	if e.P(5) == 0 {
		rs = 0
	}
	if e.P(5) == 0 {
		ws = 0
	}
	nOps := 2 + e.P(10)
	conn := simnet.NewConn(e.Sim, "c17")
	conn.Frag = e.P(4)
	tr := transport.NewTransport(net.Conn(conn), rs, ws)
	var ops []*c17Op
	var written []byte
	id := 0
	for i := 0; i < nOps; i++ {
		o := &c17Op{Kind: e.P(3)}
		if e.P(12) == 11 {
			// a vector of empty slices: nothing to write, but earlier buffered bytes must still be flushed later
			o.Kind = 1
			for j, k := 0, 2+e.P(2); j < k; j++ {
				o.Data = append(o.Data, []byte{})
			}
			ops = append(ops, o)
			continue
		}
		switch o.Kind {
		case 0:
			id++
			o.Data = [][]byte{fillPayload(id, e.PSize(c17Sizes, 6000))}
		case 1:
			k := 1 + e.P(3)
			for j := 0; j < k; j++ {
				id++
				o.Data = append(o.Data, fillPayload(id, e.PSize(c17Sizes, 6000)))
			}
		}
		ops = append(ops, o)
	}
	// inbound direction
	var inbound []byte
	nIn := e.P(10)
	var inChunks [][]byte
	for i := 0; i < nIn; i++ {
		id++
		c := fillPayload(id, e.PSize(c17Sizes, 6000))
		if len(c) == 0 {
			c = fillPayload(id, 1)
		}
		inChunks = append(inChunks, c)
		inbound = append(inbound, c...)
	}
	readSizes := []int{5, 16, 100, 5000}
	e.Describe("wrapper read-buffer=%d write-buffer=%d; %d write-side ops; %d inbound chunks (%d bytes), read fragmentation mode %d", rs, ws, nOps, nIn, len(inbound), conn.Frag)
	var got []byte
	var readErr error
	e.Go("writer", func() {
		for _, o := range ops {
			e.Step()
			switch o.Kind {
			case 0:
				buf := append([]byte(nil), o.Data[0]...)
				written = append(written, o.Data[0]...)
				n, err := tr.Write(buf)
				poison(buf) // a Writer must not retain p: the caller reuses its buffer at once
				o.done(int64(n), err, len(conn.Wire), len(written))
			case 1:
				bufs := make(transport.Buffers, len(o.Data))
				keep := make([][]byte, len(o.Data))
				for i, d := range o.Data {
					bufs[i] = append([]byte(nil), d...)
					keep[i] = bufs[i]
					written = append(written, d...)
				}
				n, err := tr.Writev(bufs)
				for _, b := range keep {
					poison(b) // like channel.writeOnce, which recycles its packets right after Writev
				}
				o.done(n, err, len(conn.Wire), len(written))
			case 2:
				err := tr.Flush()
				o.done(0, err, len(conn.Wire), len(written))
			}
			if !bytes.HasPrefix(written, conn.Wire) {
				e.Violate("prefix", fmt.Sprintf("r=%d,w=%d", rs, ws), "after op %d the bytes received by the peer are not a prefix of the bytes written (first difference at %d)", len(ops), firstDiff(conn.Wire, written))
			}
		}
	})
	if nIn > 0 {
		e.Go("peer", func() {
			for _, c := range inChunks {
				e.Step()
				conn.Feed(c)
			}
		})
		e.Go("reader", func() {
			for len(got) < len(inbound) {
				buf := make([]byte, readSizes[e.P(len(readSizes))])
				n, err := tr.Read(buf)
				got = append(got, buf[:n]...)
				if err != nil {
					readErr = err
					return
				}
			}
		})
	}
	e.RunToEnd()
	cls := fmt.Sprintf("r=%d,w=%d", rs, ws)
	for i, o := range ops {
		if o.Err != nil {
			e.Violate("no-error", cls, "op %d failed on a fault-free connection: %v", i, o.Err)
		}
		want := int64(0)
		for _, d := range o.Data {
			want += int64(len(d))
		}
		if o.Kind != 2 && o.N != want {
			e.Violate("count", cls, "op %d reported %d bytes written instead of %d", i, o.N, want)
		}
		if o.Kind == 2 && o.WireAfter != o.WrittenAfter {
			e.Violate("flush-delivers-all", cls, "after Flush (op %d) the peer had received %d of the %d bytes written so far", i, o.WireAfter, o.WrittenAfter)
		}
	}
	if !bytes.HasPrefix(written, conn.Wire) {
		e.Violate("prefix", cls, "the bytes received by the peer are not a prefix of the bytes written in call order (first difference at %d of %d)", firstDiff(conn.Wire, written), len(written))
	}
	if nIn > 0 {
		if readErr != nil {
			e.Violate("read", cls, "Read failed: %v", readErr)
		} else if !bytes.Equal(got, inbound) {
			e.Violate("read", cls, "Read returned %d bytes that differ from the peer's %d bytes at offset %d", len(got), len(inbound), firstDiff(got, inbound))
		}
	}
	e.Count("short_reads_fired", conn.Fired.ShortReads)
	e.Count("blocked_reads_fired", conn.Fired.BlockedReads)
	e.Count(fmt.Sprintf("variant:%s", cls), 1)
}
