package harness

import (
	"errors"
	"fmt"
	"io"
	"time"

	netty "github.com/go-netty/go-netty"
	"github.com/go-netty/go-netty/verifsim/simnet"
	"github.com/go-netty/go-netty/verifsim/simrt"
)

func init() { Register(&PropDef{ID: "C05", Run: runC05}) }

// closeRec is one Close call issued by the harness (from a task or from inside a handler).
type closeRec struct {
	Who      string
	Err      error
	Task     int
	Inv, Ret int64
	ActiveAfter bool
	CtxErrAfter error
	Returned bool
}

//go:norace
func newCloseRec(e *Env, recs *[]*closeRec, who string, err error) *closeRec {
	r := &closeRec{Who: who, Err: err, Task: -1, Inv: e.Sim.NextEv()}
	if t := simrt.Me(); t != nil {
		r.Task = t.ID
	}
	*recs = append(*recs, r)
	return r
}

//go:norace
func (r *closeRec) done(e *Env, active bool, ctxErr error) {
	r.ActiveAfter, r.CtxErrAfter = active, ctxErr
	r.Ret = e.Sim.NextEv()
	r.Returned = true
}

type closeNowEvent struct{ err error }

// Closer kinds.
const (
	ckUser = iota
	ckHandlerEvent // Trigger(event) -> handler calls ctx.Close
	ckHandlerRead  // an inbound message makes the handler call ctx.Close
	ckReadFail     // transport read fails (EOF / reset / other)
	ckWriteFail    // transport write fails in the sender / sync writer
	ckHolder       // holder.CloseAll
	ckShutdown     // bootstrap.Shutdown
	ckHandlerActive // the handler closes the channel while handling the active event
	nCloserKinds
)

var ckNames = []string{"user-task", "handler(event)", "handler(read)", "read-failure", "write-failure", "holder.CloseAll", "Shutdown", "handler(active)"}

//go:norace
func runC05(e *Env) {
	cc := e.drawChan(true, []int{2, 1, 8})
	useHolder := e.P(2) == 0
	e.Sim.StallOK = e.P(4) == 3
	var recs []*closeRec
	var faultErrs []error
	ch := netty.Channel(nil)
	recClose := func(who string, err error, do func()) {
		r := newCloseRec(e, &recs, who, err)
		do()
		r.done(e, ch.IsActive(), ch.Context().Err())
	}
	var readCloseErr error
	var activeCloseErr error
	activeClose := e.P(10) == 9
	if activeClose {
		activeCloseErr = errors.New("close-error-from-active-handler")
	}
	rig := e.NewBRig(cc, useHolder, e.P(3) == 2, func(c netty.Channel, p *Probe) []netty.Handler {
		if activeClose {
			p.OnActive = func(ctx netty.ActiveContext) {
				ch = c
				recClose("handler(active)", activeCloseErr, func() { ctx.Close(activeCloseErr) })
			}
		}
		p.OnEvent = func(ctx netty.EventContext, ev netty.Event) {
			if ce, ok := ev.(closeNowEvent); ok {
				recClose("handler(event)", ce.err, func() { ctx.Close(ce.err) })
			}
		}
		p.OnRead = func(ctx netty.InboundContext, msg netty.Message) bool {
			if readCloseErr == nil {
				return false
			}
			// read one chunk; the marker byte 0xC1 asks the handler to close
			buf := make([]byte, 16)
			n, err := msg.(io.Reader).Read(buf)
			if err != nil {
				panic(err)
			}
			for _, b := range buf[:n] {
				if b == 0xC1 {
					err := readCloseErr
					recClose("handler(read)", err, func() { ctx.Close(err) })
					return true
				}
			}
			return true
		}
		return nil
	})

	closeFails := e.P(5) == 4 // the transport's Close closes the connection but reports an error of its own
	if closeFails {
		rig.F.CloseErr = errors.New("transport close: close_notify not sent (simulated)")
	}
	nClosers := 1 + e.P(4)
	kinds := make([]int, nClosers)
	for i := range kinds {
		kinds[i] = e.P(nCloserKinds)
		if (kinds[i] == ckHolder && !useHolder) || kinds[i] == ckHandlerActive {
			kinds[i] = ckUser
		}
	}
	nilErr := make([]bool, nClosers)
	for i := range nilErr {
		nilErr[i] = e.P(4) == 3
	}
	earlyShutdown := e.P(6) == 5 // Shutdown races with Connect itself (the channel is still being set up)
	nWriters := e.P(3)
	feed := e.P(3) // inbound chunks fed by the peer
	var desc []string
	for _, k := range kinds {
		desc = append(desc, ckNames[k])
	}
	e.Describe("channel=%s holder=%v closers=%v (nil-error: %v) writers=%d inbound-chunks=%d stalls=%v shutdown-racing-connect=%v close-inside-active-handler=%v transport-close-reports-error=%v", cc, useHolder, desc, nilErr, nWriters, feed, e.Sim.StallOK, earlyShutdown, activeClose, closeFails)

	var connectRet int64
	var conn *simnet.Conn
	if earlyShutdown {
		e.Go("early-shutdown", func() {
			e.Step()
			rig.BS.Shutdown()
		})
	}
	e.Go("main", func() {
		c, err := rig.BS.Connect("sim://peer:1")
		if err != nil {
			e.Violate("connect", "failed", "Connect failed: %v", err)
			return
		}
		ch = c
		connectRet = e.Sim.NextEv()
		conn = rig.F.Clients[0]
		peer := conn.Peer
		for w := 0; w < nWriters; w++ {
			w := w
			e.Go(fmt.Sprintf("writer%d", w), func() {
				for i := 0; i < 2; i++ {
					e.Step()
					ch.Write1([]byte{byte(w + 1), 2, 3, 4})
				}
			})
		}
		if feed > 0 {
			e.Go("peer", func() {
				for i := 0; i < feed; i++ {
					e.Step()
					conn.Feed([]byte{0x10, 0x11, 0x12})
				}
			})
		}
		for i, k := range kinds {
			i, k := i, k
			var cerr error = fmt.Errorf("close-error-%d", i)
			if nilErr[i] {
				cerr = nil // a graceful Close(nil)
			}
			switch k {
			case ckUser:
				e.Go(fmt.Sprintf("closer%d", i), func() {
					e.Step()
					recClose("user-task", cerr, func() { ch.Close(cerr) })
				})
			case ckHandlerEvent:
				e.Go(fmt.Sprintf("closer%d", i), func() {
					e.Step()
					ch.Trigger(closeNowEvent{cerr})
				})
			case ckHandlerRead:
				if readCloseErr == nil {
					readCloseErr = cerr
					e.Go(fmt.Sprintf("closer%d", i), func() {
						e.Step()
						conn.Feed([]byte{0xC1})
					})
				}
			case ckReadFail:
				var ferr error
				switch e.P(3) {
				case 0:
					ferr = io.EOF
				case 1:
					ferr = simnet.ErrReset
				default:
					ferr = errors.New("custom read failure")
				}
				faultErrs = append(faultErrs, ferr)
				e.Go(fmt.Sprintf("closer%d", i), func() {
					e.Step()
					conn.EndInput(ferr, false)
					e.Count("read_failure_injected", 1)
				})
			case ckWriteFail:
				werr := fmt.Errorf("write-failure-%d", i)
				faultErrs = append(faultErrs, werr)
				e.Go(fmt.Sprintf("closer%d", i), func() {
					e.Step()
					if conn.FailWriteAt == 0 {
						conn.FailWriteAt, conn.FailWriteErr = 1, werr
					}
					// make sure something is written so that the failure fires
					e.Count("write_failure_armed", 1)
					ch.Write1([]byte{9, 9})
				})
			case ckHolder:
				e.Go(fmt.Sprintf("closer%d", i), func() {
					e.Step()
					recClose("holder.CloseAll", cerr, func() { rig.Holder.CloseAll(cerr) })
				})
			case ckShutdown:
				e.Go(fmt.Sprintf("closer%d", i), func() {
					e.Step()
					recClose("Shutdown", netty.ErrServerClosed, func() { rig.BS.Shutdown() })
				})
			}
		}
		_ = peer
	})
	end := e.RunToEnd()

	// ---- oracle ----
	if conn == nil || len(rig.Probes) == 0 {
		return
	}
	p := rig.Probes[0]
	act, ina, reads := p.Of("active"), p.Of("inactive"), p.Of("read")
	if len(act) != 1 {
		e.Violate("active-once", fmt.Sprintf("count=%d", len(act)), "active delivered %d times", len(act))
	} else {
		if connectRet != 0 && act[0].End == 0 || act[0].End > connectRet {
			e.Violate("active-before-handout", "connect", "Connect returned (@%d) before the active event completed (@%d)", connectRet, act[0].End)
		}
		for _, r := range reads {
			if r.Seq < act[0].End {
				e.Violate("active-before-reads", "read-during-active", "a read was delivered (@%d) before the active event completed (@%d)", r.Seq, act[0].End)
			}
		}
	}
	for i := 1; i < len(reads); i++ {
		if reads[i-1].End == 0 || reads[i].Seq < reads[i-1].End {
			e.Violate("sequential-reads", "overlap", "read delivery @%d started before the previous one (@%d..@%d) finished", reads[i].Seq, reads[i-1].Seq, reads[i-1].End)
		}
	}
	if conn.CloseCount > 1 {
		e.Violate("transport-closed-once", "twice", "transport closed %d times", conn.CloseCount)
	}
	if len(ina) > 1 {
		e.Violate("inactive-once", "twice", "inactive delivered %d times", len(ina))
	}
	anyClose := conn.CloseCount > 0
	for _, r := range recs {
		if r.Returned && r.Who != "Shutdown" && r.Who != "holder.CloseAll" && r.ActiveAfter {
			e.Violate("inactive-after-close-returns", r.Who, "IsActive() was still true after a Close call (%s) had returned", r.Who)
		}
	}
	quiet := end == simrt.EndQuiescent || end == simrt.EndAllDone
	if quiet && anyClose {
		if conn.CloseCount != 1 {
			e.Violate("transport-closed-once", fmt.Sprintf("count=%d", conn.CloseCount), "transport close count %d at quiescence", conn.CloseCount)
		}
		if len(ina) != 1 {
			e.Violate("inactive-once", fmt.Sprintf("count=%d", len(ina)), "inactive delivered %d times at quiescence although the transport was closed", len(ina))
		}
		// which Close call took effect: the one whose task closed the transport while the call was in progress
		var closeEv *simnet.Ev
		for i := range conn.Log {
			if conn.Log[i].Kind == simnet.EvClose {
				closeEv = &conn.Log[i]
				break
			}
		}
		var eff *closeRec
		for _, r := range recs {
			if r.Task == closeEv.Task && r.Inv < closeEv.Seq && (!r.Returned || closeEv.Seq < r.Ret) && r.Who != "Shutdown" && r.Who != "holder.CloseAll" {
				eff = r
			}
		}
		if len(ina) == 1 {
			got := ina[0].Err
			switch {
			case eff != nil:
				if got != eff.Err {
					e.Violate("inactive-carries-effective-error", eff.Who, "inactive carried %q but the Close call that took effect (%s) was given %q", errStr(got), eff.Who, errStr(eff.Err))
				}
				if eff.Returned && eff.CtxErrAfter == nil {
					e.Violate("context-cancelled", eff.Who, "the channel context was not cancelled after the effective Close call (%s) had returned", eff.Who)
				}
			default:
				// closed by the framework itself (failure path, holder, Shutdown or read-loop exit)
				ok := got == nil // read loop exit issues Close(nil)
				for _, fe := range faultErrs {
					if got == fe || errors.Is(got, fe) {
						ok = true
					}
				}
				for _, r := range recs {
					if (r.Who == "holder.CloseAll" || r.Who == "Shutdown") && got == r.Err {
						ok = true
					}
				}
				if earlyShutdown && got == netty.ErrServerClosed {
					ok = true
				}
				if !ok {
					e.Violate("inactive-carries-effective-error", "framework-close", "inactive carried %q, which is neither an injected failure nor the argument of any Close call", errStr(got))
				}
			}
		}
		if ch.Context().Err() == nil {
			e.Violate("context-cancelled", "at-quiescence", "channel context not cancelled at quiescence although the transport was closed")
		}
		// the read loop must be gone
		for _, t := range rig.X.Tasks {
			if !t.Done() {
				e.Violate("read-loop-terminates", t.StateName(), "executor task %s still alive (%s) at quiescence after the transport was closed", t.Name, t.StateName())
			}
		}
	}
	e.Count("closes_recorded", len(recs))
	e.Count("inbound_reads_delivered", len(reads))
	e.Count("read_eofs_fired", conn.Fired.EOFs)
	e.Count("read_resets_fired", conn.Fired.Resets)
	e.Count("write_errors_fired", conn.Fired.WriteErrs)
	e.Count("transport_close_errors_fired", conn.Fired.CloseErrs)
	if len(recs) >= 2 {
		e.Count("runs_with_2plus_close_calls", 1)
	}
	_ = time.Second
	// teardown
	e.Go("teardown", func() {
		if ch != nil {
			ch.Close(errors.New("teardown"))
		}
		rig.BS.Shutdown()
	})
	e.Sim.StallOK = false
	e.Sim.Run()
}
