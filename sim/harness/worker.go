package harness

import (
	"encoding/json"
	"fmt"
	"os"
	"sort"
	"strings"
	"testing"
	"testing/synctest"
	"time"

	"github.com/go-netty/go-netty/verifsim/simrt"
)

// PropDef is one registered property check.
type PropDef struct {
	ID    string
	Run   func(e *Env)
	Race  bool // needs the race-instrumented build
	Swarm func(rng *simrt.Rng, tp *simrt.Tape) // optional: override the exploration policy
}

var props = map[string]*PropDef{}

func Register(p *PropDef) { props[p.ID] = p }

// RunResult is the outcome of one simulated run.
type RunResult struct {
	Seed       uint64        `json:"seed"`
	Viol       []Violation   `json:"violations,omitempty"`
	Steps      int           `json:"steps"`
	Switches   int           `json:"switches"`
	FakeNs     int64         `json:"fake_ns"`
	End        string        `json:"end"`
	Inconcl    string        `json:"inconclusive,omitempty"`
	Leak       bool          `json:"leak,omitempty"`
	Crash      string        `json:"crash,omitempty"`
	Tape       []simrt.Entry `json:"-"`
	Diverged   int           `json:"diverged,omitempty"`
	CaseHash   uint64        `json:"-"`
	Pairs      []uint64      `json:"-"`
	Counters   map[string]int `json:"-"`
	Outcomes   []simrt.OutcomeCount `json:"-"`
	Desc       []string      `json:"desc,omitempty"`
	Notes      []string      `json:"notes,omitempty"`
	Log        []string      `json:"-"`
	Stalls     int           `json:"stalls"`
	RaceDelta  int           `json:"race_delta,omitempty"`
	Races      []RaceReport  `json:"races,omitempty"`
}

// RunOpts controls one run.
type RunOpts struct {
	Replay  []simrt.Entry
	IsReplay bool
	KeepLog bool
	Verbose bool
}

// swarm draws the exploration policy of a run from its seed (not from the tape: it only shapes the
// distribution the tape values are drawn from).
// Deep is set for the thorough tier: wider policy ranges (deeper PCT, longer spans, more stalls).
var Deep bool

func swarm(seed uint64, tp *simrt.Tape) {
	r := simrt.NewRng(seed ^ 0xA5A5A5A5)
	if Deep && r.Intn(3) == 0 {
		switch r.Intn(3) {
		case 0:
			tp.Policy = simrt.PolPCT
			tp.PCTDepth = 3 + r.Intn(5)
			tp.PCTSpan = []int{60, 150, 400, 1000}[r.Intn(4)]
		case 1:
			tp.Policy = simrt.PolFewPre
			tp.PreemptP = []float64{0.005, 0.01, 0.4, 0.5}[r.Intn(4)]
		default:
			tp.Policy = simrt.PolUniform
		}
		tp.StallP = []float64{0, 0.02, 0.1, 0.2}[r.Intn(4)]
		tp.SelectP = []float64{0.1, 0.5, 0.9}[r.Intn(3)]
		tp.PoolP = []float64{0.05, 0.5, 0.8}[r.Intn(3)]
		return
	}
	switch r.Intn(10) {
	case 0, 1, 2:
		tp.Policy = simrt.PolUniform
	case 3, 4, 5, 6:
		tp.Policy = simrt.PolFewPre
		tp.PreemptP = []float64{0.02, 0.05, 0.1, 0.2, 0.3}[r.Intn(5)]
	default:
		tp.Policy = simrt.PolPCT
		tp.PCTDepth = 1 + r.Intn(3)
		tp.PCTSpan = []int{30, 80, 200}[r.Intn(3)]
	}
	tp.StallP = []float64{0, 0.01, 0.03, 0.08}[r.Intn(4)]
	tp.SelectP = []float64{0.2, 0.5, 0.8}[r.Intn(3)]
	tp.PoolP = []float64{0.1, 0.3, 0.6}[r.Intn(3)]
}

// RunOne executes one simulated run of a property in a fresh bubble.
func RunOne(t *testing.T, prop string, seed uint64, opts RunOpts) (res RunResult) {
	def := props[prop]
	if def == nil {
		panic("unknown property " + prop)
	}
	res.Seed = seed
	race0 := simrt.RaceErrors()
	body := func(t *testing.T) {
		var sim *simrt.Sim
		var env *Env
		finished := false
		defer func() {
			if r := recover(); r != nil {
				msg := fmt.Sprint(r)
				if finished && strings.Contains(msg, "deadlock") {
					res.Leak = true
				} else {
					res.Crash = msg
				}
			}
			if sim != nil {
				sim.Finish()
			}
		}()
		synctest.Test(t, func(t *testing.T) {
			simrt.ResetGlobals()
			var tape *simrt.Tape
			if opts.IsReplay {
				tape = simrt.NewReplayTape(opts.Replay)
			} else {
				tape = simrt.NewTape(seed)
				swarm(seed, tape)
				if def.Swarm != nil {
					def.Swarm(simrt.NewRng(seed^0x5151), tape)
				}
			}
			sim = simrt.New(tape)
			sim.KeepLog = opts.KeepLog
			env = &Env{Sim: sim, Tape: tape, Prop: prop, Verbose: opts.Verbose, Mute: def.Race}
			def.Run(env)
			for _, pt := range env.EscapedPanics() {
				if !strings.HasPrefix(pt.Name, "teardown") {
					env.Violate("no-escaped-panic", "task-died", "task %s died with panic: %v", pt.Name, pt.Panic)
				}
			}
			sim.Finish()
			res.Viol = env.Viol
			if env.Inconclusive != "" {
				// the run was cut by the step or fake-time bound: its final state proves nothing; it is counted as
				// inconclusive, never reported
				res.Viol = nil
			}
			res.Steps, res.Switches, res.Stalls = sim.Steps, sim.Switches, sim.Stalls
			res.FakeNs = int64(sim.Now())
			res.Inconcl = env.Inconclusive
			res.End = env.End
			res.Tape = tape.Rec
			res.Diverged = tape.Diverged
			h := sim.SchedHash
			for _, en := range tape.Rec {
				if en.Kind == simrt.KParam || en.Kind == simrt.KNet {
					h = (h ^ uint64(en.V+1)) * 1099511628211
				}
			}
			res.CaseHash = h
			res.Pairs = sim.Pairs
			res.Counters = env.Counters()
			res.Outcomes = sim.Outcomes
			res.Desc = env.Desc
			res.Notes = env.Notes
			res.Log = sim.Log
			finished = true
		})
	}
	if simrt.RaceEnabled {
		// the testing package fails (FailNow) a test in which the detector fired: isolate every run in a subtest
		t.Run("run", body)
	} else {
		body(t)
	}
	res.RaceDelta = simrt.RaceErrors() - race0
	if res.RaceDelta > 0 {
		res.Races = CollectRaces()
	}
	if def.Race {
		res.Viol = nil
		for _, r := range res.Races {
			if r.RepoA || r.RepoB {
				v := Violation{Prop: prop, Clause: "race", Class: r.Sig, Detail: fmt.Sprintf("unsynchronised conflicting accesses: [%s] and [%s] (line numbers refer to the instrumented copy)", r.A, r.B)}
				if hasSig(res, v.Sig()) == nil {
					res.Viol = append(res.Viol, v)
				}
			} else {
				if res.Counters == nil {
					res.Counters = map[string]int{}
				}
				res.Counters["race_reports_inside_harness_only(ignored)"]++
				if os.Getenv("VERIF_SHOW_ARTIFACTS") != "" {
					fmt.Fprintln(os.Stderr, "ARTIFACT", r.A, "|", r.B)
				}
			}
		}
		if simrt.RaceEnabled {
			if res.Counters == nil {
				res.Counters = map[string]int{}
			}
			res.Counters["runs_under_race_detector"]++
		}
	}
	return
}

// ---- replay files ----------------------------------------------------------------------------------------

// ReplayFile is the on-disk form of a (minimised) violating run.
type ReplayFile struct {
	Property  string     `json:"property"`
	Signature string     `json:"signature"`
	Detail    string     `json:"detail"`
	Seed      uint64     `json:"seed"`
	Tape      [][3]int   `json:"tape"` // [kind, arity, value]
	TapeNote  string     `json:"tape_note"`
	NonZero   int        `json:"nonzero_decisions"`
	Desc      []string   `json:"scenario"`
	Steps     int        `json:"steps"`
	Race      bool       `json:"race_build,omitempty"`
}

func tapeToJSON(tp []simrt.Entry) [][3]int {
	out := make([][3]int, len(tp))
	for i, e := range tp {
		out[i] = [3]int{e.Kind, e.N, e.V}
	}
	return out
}

func tapeFromJSON(j [][3]int) []simrt.Entry {
	out := make([]simrt.Entry, len(j))
	for i, e := range j {
		out[i] = simrt.Entry{Kind: e[0], N: e[1], V: e[2]}
	}
	return out
}

func hasSig(r RunResult, sig string) *Violation {
	for i := range r.Viol {
		if r.Viol[i].Sig() == sig {
			return &r.Viol[i]
		}
	}
	return nil
}

// Minimise shrinks a violating tape: truncate, then ddmin over the non-zero entries (set to 0), keeping a
// candidate only if the same violation signature reappears; the result is re-recorded from the actual run.
func Minimise(t *testing.T, prop string, seed uint64, tape []simrt.Entry, sig string, budget time.Duration) ([]simrt.Entry, RunResult, int) {
	deadline := time.Now().Add(budget)
	tries := 0
	try := func(tp []simrt.Entry) (RunResult, bool) {
		tries++
		r := RunOne(t, prop, seed, RunOpts{Replay: tp, IsReplay: true})
		return r, hasSig(r, sig) != nil
	}
	best := append([]simrt.Entry(nil), tape...)
	bestRes, ok := try(best)
	if !ok {
		return tape, bestRes, tries
	}
	best = bestRes.Tape
	nz := func(tp []simrt.Entry) []int {
		var ix []int
		for i, e := range tp {
			if e.V != 0 {
				ix = append(ix, i)
			}
		}
		return ix
	}
	// ddmin over non-zero positions
	n := 2
	for time.Now().Before(deadline) {
		ix := nz(best)
		if len(ix) == 0 {
			break
		}
		if n > len(ix) {
			n = len(ix)
		}
		chunk := (len(ix) + n - 1) / n
		reduced := false
		for c := 0; c < n && time.Now().Before(deadline); c++ {
			lo, hi := c*chunk, (c+1)*chunk
			if lo >= len(ix) {
				break
			}
			if hi > len(ix) {
				hi = len(ix)
			}
			cand := append([]simrt.Entry(nil), best...)
			for _, i := range ix[lo:hi] {
				cand[i].V = 0
			}
			if r, ok := try(cand); ok {
				best, bestRes = r.Tape, r
				reduced = true
				if n > 2 {
					n--
				}
				break
			}
		}
		if !reduced {
			if n >= len(ix) {
				// try lowering single values
				lowered := false
				for _, i := range ix {
					if best[i].V > 1 && time.Now().Before(deadline) {
						cand := append([]simrt.Entry(nil), best...)
						cand[i].V = 1
						if r, ok := try(cand); ok {
							best, bestRes = r.Tape, r
							lowered = true
							break
						}
					}
				}
				if !lowered {
					break
				}
				continue
			}
			n *= 2
		}
	}
	// drop trailing zeros (past the end of a replayed tape every decision is 0)
	for len(best) > 0 && best[len(best)-1].V == 0 {
		best = best[:len(best)-1]
	}
	final, ok := try(best)
	if ok {
		bestRes = final
	}
	return best, bestRes, tries
}

// ---- worker ----------------------------------------------------------------------------------------------

// WorkerOut is what one worker process reports to the parent.
type WorkerOut struct {
	Prop       string            `json:"prop"`
	Seed0      uint64            `json:"seed0"`
	Runs       int               `json:"runs"`
	WallS      float64           `json:"wall_s"`
	Violations []WViolation      `json:"violations"`
	SigCounts  map[string]int    `json:"sig_counts"`
	Steps      []int             `json:"steps_min_med_max"`
	FakeNsTot  int64             `json:"fake_ns_total"`
	FakeNsMax  int64             `json:"fake_ns_max"`
	Ends       map[string]int    `json:"end_reasons"`
	Inconcl    int               `json:"inconclusive"`
	Leaks      int               `json:"leaks"`
	Crashes    []string          `json:"crashes"`
	Counters   map[string]int    `json:"counters"`
	Outcomes   map[string]int    `json:"site_outcomes"`
	CaseHashes []uint64          `json:"case_hashes"`
	Pairs      []uint64          `json:"pairs"`
	Samples    []json.RawMessage `json:"samples"`
	Stalls     int               `json:"stalls"`
	StepsTotal int64             `json:"steps_total"`
	TapeKinds  map[string]int    `json:"tape_nonzero_by_kind"`
	RaceErrs   int               `json:"race_errors"`
	Sites      int               `json:"repo_sites"`
	InconclSamples []string      `json:"inconclusive_samples"`
}

type WViolation struct {
	Seed      uint64    `json:"seed"`
	Sig       string    `json:"sig"`
	Detail    string    `json:"detail"`
	Tape      [][3]int  `json:"tape"`
	Steps     int       `json:"steps"`
	Desc      []string  `json:"desc"`
}

func mix(a, b uint64) uint64 {
	z := a + 0x9E3779B97F4A7C15*(b+1)
	z = (z ^ (z >> 30)) * 0xBF58476D1CE4E5B9
	z = (z ^ (z >> 27)) * 0x94D049BB133111EB
	return z ^ (z >> 31)
}

// Worker runs a batch of seeds and writes the aggregate as JSON.
func Worker(t *testing.T, prop string, seed0 uint64, first, runs int, out string, maxViol int, wallBudget time.Duration) {
	start := time.Now()
	w := WorkerOut{Prop: prop, Seed0: seed0, SigCounts: map[string]int{}, Ends: map[string]int{}, Counters: map[string]int{},
		Outcomes: map[string]int{}, TapeKinds: map[string]int{}, Sites: len(simrt.RepoSites())}
	hashes := map[uint64]bool{}
	pairs := map[uint64]bool{}
	var steps []int
	perSig := map[string]int{}
	for i := 0; i < runs; i++ {
		if wallBudget > 0 && time.Since(start) > wallBudget {
			break
		}
		seed := mix(seed0, uint64(first+i))
		r := RunOne(t, prop, seed, RunOpts{})
		w.Runs++
		steps = append(steps, r.Steps)
		w.StepsTotal += int64(r.Steps)
		w.FakeNsTot += r.FakeNs
		if r.FakeNs > w.FakeNsMax {
			w.FakeNsMax = r.FakeNs
		}
		w.Ends[r.End]++
		w.Stalls += r.Stalls
		if r.Inconcl != "" {
			w.Inconcl++
			if len(w.InconclSamples) < 2 {
				w.InconclSamples = append(w.InconclSamples, fmt.Sprintf("seed %d: %s after %d steps: %s", seed, r.Inconcl, r.Steps, strings.Join(r.Desc, " | ")))
			}
		}
		if r.Leak {
			w.Leaks++
		}
		if r.Crash != "" && len(w.Crashes) < 5 {
			w.Crashes = append(w.Crashes, fmt.Sprintf("seed %d: %s", seed, r.Crash))
		}
		for k, v := range r.Counters {
			w.Counters[k] += v
		}
		for _, o := range r.Outcomes {
			w.Outcomes[fmt.Sprintf("%s=%d", simrt.SiteName(o.Site), o.Outcome)] += o.N
		}
		for _, e := range r.Tape {
			if e.V != 0 {
				w.TapeKinds[simrt.KindName(e.Kind)]++
			}
		}
		if r.Switches >= 2 {
			hashes[r.CaseHash] = true
		}
		for _, p := range r.Pairs {
			pairs[p] = true
		}
		for _, v := range r.Viol {
			w.SigCounts[v.Sig()]++
			if perSig[v.Sig()] < maxViol {
				perSig[v.Sig()]++
				w.Violations = append(w.Violations, WViolation{Seed: seed, Sig: v.Sig(), Detail: v.Detail, Tape: tapeToJSON(r.Tape), Steps: r.Steps, Desc: r.Desc})
			}
		}
		if len(w.Samples) < 2 && r.Switches >= 2 && len(r.Viol) == 0 {
			s, _ := json.Marshal(map[string]interface{}{"seed": seed, "scenario": r.Desc, "steps": r.Steps, "context_switches": r.Switches,
				"fake_time_ms": r.FakeNs / 1e6, "nonzero_decisions": nonZero(r.Tape), "end": r.End, "history": r.Notes})
			w.Samples = append(w.Samples, s)
		}
	}
	sort.Ints(steps)
	if len(steps) > 0 {
		w.Steps = []int{steps[0], steps[len(steps)/2], steps[len(steps)-1]}
	}
	for h := range hashes {
		w.CaseHashes = append(w.CaseHashes, h)
	}
	for p := range pairs {
		w.Pairs = append(w.Pairs, p)
	}
	w.WallS = time.Since(start).Seconds()
	w.RaceErrs = simrt.RaceErrors()
	b, _ := json.Marshal(w)
	if err := os.WriteFile(out, b, 0o644); err != nil {
		t.Fatal(err)
	}
}

func nonZero(tp []simrt.Entry) []string {
	var out []string
	for i, e := range tp {
		if e.V != 0 {
			out = append(out, fmt.Sprintf("%d:%s=%d/%d", i, simrt.KindName(e.Kind), e.V, e.N))
		}
	}
	return out
}
