//go:debug asynctimerchan=0
package harness

import (
	"encoding/json"
	"flag"
	"fmt"
	"os"
	"strings"
	"testing"
	"time"
)

var (
	fMode   = flag.String("sim.mode", "", "worker | replay | minimise | log")
	fProp   = flag.String("sim.prop", "", "property id")
	fSeed0  = flag.Uint64("sim.seed0", 1, "batch seed")
	fFirst  = flag.Int("sim.first", 0, "index of the first run of this worker")
	fRuns   = flag.Int("sim.runs", 100, "number of runs")
	fOut    = flag.String("sim.out", "", "output file")
	fIn     = flag.String("sim.in", "", "input file (replay / violation)")
	fMaxV   = flag.Int("sim.maxviol", 3, "violations kept per signature")
	fBudget = flag.Duration("sim.budget", 0, "wall-clock budget")
	fSeed   = flag.Uint64("sim.seed", 0, "run seed (log mode)")
	fDeep   = flag.Bool("sim.deep", false, "thorough tier: wider exploration policy ranges")
)

// TestSim is the single entry point of the simulation binary; the parent driver selects the mode.
func TestSim(t *testing.T) {
	Deep = *fDeep
	switch *fMode {
	case "":
		t.Skip("no -sim.mode given")
	case "worker":
		Worker(t, *fProp, *fSeed0, *fFirst, *fRuns, *fOut, *fMaxV, *fBudget)
	case "log":
		// determinism self-test: print the full event log of one seed
		r := RunOne(t, *fProp, *fSeed, RunOpts{KeepLog: true})
		var b strings.Builder
		for _, l := range r.Desc {
			b.WriteString("# " + l + "\n")
		}
		for _, l := range r.Log {
			b.WriteString(l + "\n")
		}
		fmt.Fprintf(&b, "end=%s steps=%d fake=%d viol=%d tape=%d leak=%v crash=%q\n", r.End, r.Steps, r.FakeNs, len(r.Viol), len(r.Tape), r.Leak, r.Crash)
		for _, v := range r.Viol {
			b.WriteString(v.Sig() + " " + v.Detail + "\n")
		}
		for _, e := range r.Tape {
			fmt.Fprintf(&b, "%d/%d/%d ", e.Kind, e.N, e.V)
		}
		b.WriteString("\n")
		os.WriteFile(*fOut, []byte(b.String()), 0o644)
	case "replay":
		var rf ReplayFile
		data, err := os.ReadFile(*fIn)
		if err != nil {
			t.Fatal(err)
		}
		if err := json.Unmarshal(data, &rf); err != nil {
			t.Fatal(err)
		}
		r := RunOne(t, rf.Property, rf.Seed, RunOpts{Replay: tapeFromJSON(rf.Tape), IsReplay: true, KeepLog: true})
		out := map[string]interface{}{"property": rf.Property, "expected": rf.Signature, "reproduced": hasSig(r, rf.Signature) != nil,
			"violations": r.Viol, "diverged": r.Diverged, "steps": r.Steps, "crash": r.Crash, "log": r.Log, "scenario": r.Desc, "history": r.Notes}
		b, _ := json.MarshalIndent(out, "", " ")
		os.WriteFile(*fOut, b, 0o644)
	case "minimise":
		var v struct {
			Prop string     `json:"prop"`
			V    WViolation `json:"violation"`
		}
		data, err := os.ReadFile(*fIn)
		if err != nil {
			t.Fatal(err)
		}
		if err := json.Unmarshal(data, &v); err != nil {
			t.Fatal(err)
		}
		budget := *fBudget
		if budget == 0 {
			budget = 20 * time.Second
		}
		tape, res, tries := Minimise(t, v.Prop, v.V.Seed, tapeFromJSON(v.V.Tape), v.V.Sig, budget)
		rf := ReplayFile{Property: v.Prop, Signature: v.V.Sig, Seed: v.V.Seed, Tape: tapeToJSON(tape), Desc: res.Desc, Steps: res.Steps,
			TapeNote: fmt.Sprintf("entries are [kind, arity, value]; kinds: 1 pick, 2 stall, 3 select-order, 4 pool, 5 map-order, 6 net, 7 param, 8 delay; past the end every decision is 0; minimised in %d replays from %d entries", tries, len(v.V.Tape))}
		rf.Detail = v.V.Detail
		if x := hasSig(res, v.V.Sig); x != nil {
			rf.Detail = x.Detail
		}
		for _, e := range tape {
			if e.V != 0 {
				rf.NonZero++
			}
		}
		b, _ := json.MarshalIndent(rf, "", " ")
		os.WriteFile(*fOut, b, 0o644)
	default:
		t.Fatalf("unknown mode %q", *fMode)
	}
}
