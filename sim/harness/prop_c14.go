package harness

import (
	"bytes"
	"fmt"
	"io"

	"github.com/go-netty/go-netty/utils"
)

func init() { Register(&PropDef{ID: "C14", Run: runC14}) }

type unsupportedMsg struct{ X int }

type c14Msg struct {
	ID      int
	Carrier int // < nCarriers: supported carrier; >= 100: unsupported type
	Body    []byte
	Err     error
	Panic   interface{}
	ExBefore, ExAfter int
	WireBefore, WireAfter int
}

//go:norace
func (m *c14Msg) before(ex, wire int) { m.ExBefore, m.WireBefore = ex, wire }

//go:norace
func (m *c14Msg) after(err error, p interface{}, ex, wire int) {
	m.Err, m.Panic, m.ExAfter, m.WireAfter = err, p, ex, wire
}

var c14Sizes = []int{9, 0, 1, 1023, 1024, 1025, 2048, 2049, 4097, 65536, 65537, 70001}

//go:norace
func runC14(e *Env) {
	cc := e.drawChan(true, []int{2, 8, 64})
	if cc.Async {
		cc.Until = true
	}
	cc = e.drawBuffered(cc) // sometimes behind the write-buffering transport wrapper: order across buffered and direct writes
	n := 1 + e.P(4)
	var msgs []*c14Msg
	for i := 0; i < n; i++ {
		m := &c14Msg{ID: i}
		if e.P(6) == 5 {
			m.Carrier = 100 + e.P(3)
		} else {
			m.Carrier = e.P(caString) // carriers accepted by the head
		}
		size := e.PSize(c14Sizes, 70001)
		if m.Carrier == caReaderSmall && size > 1024 {
			size = 1024
		}
		m.Body = fillPayload(i, size)
		msgs = append(msgs, m)
	}
	e.Describe("channel=%s one writer, %d messages", cc, n)
	for _, m := range msgs {
		name := "unsupported"
		if m.Carrier < nCarriers {
			name = carrierNames[m.Carrier]
		}
		e.Describe("msg %d: %s, %d bytes", m.ID, name, len(m.Body))
	}
	rig := e.NewRig(cc, false)
	rig.Probe.Swallow = true // unsupported types raise an exception; keep the channel open
	helperEvals, helperBad := 0, ""
	e.Go("main", func() {
		rig.Serve()
		e.Go("writer", func() {
			for _, m := range msgs {
				e.Step()
				var msg interface{}
				switch m.Carrier {
				case 100:
					msg = 42
				case 101:
					msg = unsupportedMsg{7}
				case 102:
					msg = nil
				default:
					// the conversion helpers, evaluated on fresh copies of the same carrier
					if bad := checkHelpers(e, m.Carrier, m.Body, &helperEvals); bad != "" && helperBad == "" {
						helperBad = bad
					}
					msg = makeCarrier(m.Carrier, m.Body, e)
				}
				m.before(len(rig.Probe.Of("exception")), len(rig.Conn.Wire))
				func() {
					defer func() {
						if r := recover(); r != nil {
							m.after(nil, r, len(rig.Probe.Of("exception")), len(rig.Conn.Wire))
						}
					}()
					err := rig.Ch.Write(msg)
					m.after(err, nil, len(rig.Probe.Of("exception")), len(rig.Conn.Wire))
				}()
			}
		})
	})
	e.RunToEnd()
	// ---- oracle ----
	var want []byte
	for _, m := range msgs {
		if m.Carrier < nCarriers {
			want = append(want, m.Body...)
		}
	}
	wire := rig.Conn.Wire
	if !bytes.Equal(wire, want) {
		k := 0
		for k < len(wire) && k < len(want) && wire[k] == want[k] {
			k++
		}
		// attribute the first difference to a message
		off, cls := 0, "?"
		for _, m := range msgs {
			if m.Carrier >= nCarriers {
				continue
			}
			if k < off+len(m.Body) || off+len(m.Body) == len(want) {
				cls = fmt.Sprintf("carrier=%s", carrierNames[m.Carrier])
				break
			}
			off += len(m.Body)
		}
		e.Violate("byte-exact", cls, "transmitted bytes differ from the message contents at offset %d (transmitted %d bytes, expected %d)", k, len(wire), len(want))
	}
	for _, m := range msgs {
		if m.Panic != nil {
			e.Violate("no-escape", fmt.Sprintf("carrier=%d", m.Carrier), "Channel.Write panicked for message %d: %v", m.ID, m.Panic)
		}
		if m.Carrier >= nCarriers {
			if m.ExAfter-m.ExBefore != 1 {
				e.Violate("unsupported-raises", fmt.Sprintf("type=%d", m.Carrier-100), "an unsupported message type raised %d exceptions instead of 1", m.ExAfter-m.ExBefore)
			}
			e.Count("unsupported_types_written", 1)
		}
	}
	if helperBad != "" {
		e.Violate("helpers", helperClass(helperBad), "%s", helperBad)
	}
	e.Count("helper_evaluations(no schedule involved)", helperEvals)
	rig.Teardown()
}

//go:norace
func helperClass(s string) string {
	for i := 0; i < len(s); i++ {
		if s[i] == ':' {
			return s[:i]
		}
	}
	return "helper"
}

// checkHelpers evaluates the conversion helpers against straightforward reference conversions.
func checkHelpers(e *Env, carrier int, body []byte, evals *int) string {
	name := carrierNames[carrier]
	// ToBytes
	*evals++
	if got, err := utils.ToBytes(makeCarrier(carrier, body, e)); err != nil || !bytes.Equal(got, body) {
		return fmt.Sprintf("ToBytes(%s): returned %d bytes, err=%v; differs from the %d-byte content at offset %d", name, len(got), err, len(body), firstDiff(got, body))
	}
	// ToReader
	*evals++
	if carrier != caBuffer && carrier != caWriterToN {
		r, err := utils.ToReader(makeCarrier(carrier, body, e))
		if err != nil {
			return fmt.Sprintf("ToReader(%s): unexpected error %v", name, err)
		}
		got, rerr := io.ReadAll(r)
		if rerr != nil || !bytes.Equal(got, body) {
			return fmt.Sprintf("ToReader(%s): read back %d bytes, err=%v; differs from content at offset %d", name, len(got), rerr, firstDiff(got, body))
		}
	}
	// CountOf
	*evals++
	if n := utils.CountOf(split(body, 3)); n != int64(len(body)) {
		return fmt.Sprintf("CountOf([][]byte): %d != %d", n, len(body))
	}
	// NewByteReader over a fragmenting reader
	*evals++
	if len(body) <= 4096 {
		// reader behaviours: short reads, an empty read, the last byte delivered together with io.EOF
		for variant := 0; variant < 3; variant++ {
			fr := &fragReader{b: append([]byte(nil), body...), plan: []int{1, 2, 1}}
			what := "short reads"
			switch variant {
			case 1:
				fr.eofWith, what = true, "last byte delivered together with io.EOF"
			case 2:
				fr.plan, what = []int{1, 0, 1}, "an empty (0, nil) read in between"
			}
			br := utils.NewByteReader(fr)
			for i := 0; i < len(body); i++ {
				b, err := br.ReadByte()
				// io.ByteReader: "If ReadByte returns an error, no input byte was consumed, and the returned byte value is undefined"
				if err != nil || b != body[i] {
					return fmt.Sprintf("ByteReader(io.Reader): %s: byte %d of %d = 0x%02x err=%v, want 0x%02x", what, i, len(body), b, err, body[i])
				}
			}
			if _, err := br.ReadByte(); err != io.EOF {
				return fmt.Sprintf("ByteReader(io.Reader): %s: after the %d content bytes ReadByte returned err=%v instead of io.EOF", what, len(body), err)
			}
		}
	}
	// StealBytes
	if carrier == caWriterTo1 || carrier == caWriterToN {
		*evals++
		got, err := utils.StealBytes(makeCarrier(carrier, body, e).(io.WriterTo))
		if err != nil || !bytes.Equal(got, body) {
			return fmt.Sprintf("StealBytes(%s): returned %d bytes, err=%v; differs from content at offset %d", name, len(got), err, firstDiff(got, body))
		}
	}
	// unsupported input
	*evals++
	if _, err := utils.ToBytes(42); err == nil {
		return "ToBytes(int): no error for an unsupported type"
	}
	if _, err := utils.ToReader(unsupportedMsg{}); err == nil {
		return "ToReader(struct): no error for an unsupported type"
	}
	return ""
}

//go:norace
func firstDiff(a, b []byte) int {
	k := 0
	for k < len(a) && k < len(b) && a[k] == b[k] {
		k++
	}
	return k
}
