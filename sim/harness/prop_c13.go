package harness

import (
	"errors"
	"fmt"

	netty "github.com/go-netty/go-netty"
	"github.com/go-netty/go-netty/verifsim/simrt"
)

func init() {
	Register(&PropDef{ID: "C13", Run: runC13})
	c12Families = append(c12Families, runC13)
}

type lstRec struct {
	URL, Host  string
	L          netty.Listener
	Mode       int // 0 Async, 1 Sync in a task, 2 never started
	Started    bool
	Ended      bool
	Err        error
	CloseCalls int
	EndSeq     int64
	DupDone    bool
	DupErr     error
}

//go:norace
func (l *lstRec) end(e *Env, err error) { l.Ended, l.Err, l.EndSeq = true, err, e.Sim.NextEv() }

// dup records the result of a second Async on the same listener: one of the two callbacks runs the accept loop,
// the other is told "duplicate call"; which is which depends on the schedule.
//
//go:norace
func (l *lstRec) dup(e *Env, err error) {
	l.DupDone, l.DupErr = true, err
	e.Count("duplicate_async_returned", 1)
}

//go:norace
func (l *lstRec) started() { l.Started = true }

//go:norace
func (l *lstRec) closed() { l.CloseCalls++ }

//go:norace
func addLst(ls []*lstRec, l *lstRec) []*lstRec { return append(ls, l) }

type connRec struct {
	Host string
	Ch   netty.Channel
	Err  error
	Done bool
}

//go:norace
func (c *connRec) set(ch netty.Channel, err error) { c.Ch, c.Err, c.Done = ch, err, true }

type shutRec struct{ Inv, Ret int64 }

//go:norace
func (s *shutRec) inv(e *Env) { s.Inv = e.Sim.NextEv() }

//go:norace
func (s *shutRec) ret(e *Env) { s.Ret = e.Sim.NextEv() }

//go:norace
func runC13(e *Env) {
	cc := e.drawChan(true, []int{2, 8})
	panicActive := e.P(6) == 5 // a user handler panics in HandleActive; the exception is consumed, the channel stays open
	rig := e.NewBRig(cc, true, e.P(3) == 2, func(ch netty.Channel, p *Probe) []netty.Handler {
		if panicActive {
			p.Swallow = true
			p.OnActive = func(ctx netty.ActiveContext) { panic("user active handler failed") }
		}
		return nil
	})
	// rare paths of the listener: a first Listen that fails and is retried, a duplicate Async, a failing Accept
	listenFail := e.P(8) == 7
	if listenFail {
		rig.F.ListenErr, rig.F.ListenFailN = errors.New("bind: address temporarily unavailable (simulated)"), 1
	}
	dupAsync := e.P(8) == 7
	acceptFail := e.P(8) == 7
	nL := e.P(4)
	nC := e.P(4)
	nD := e.P(3)
	lsts := make([]*lstRec, nL)
	for i := range lsts {
		lsts[i] = &lstRec{Host: fmt.Sprintf("h%d:1", i), Mode: e.PB(3, 0.4)}
		lsts[i].URL = "sim://" + lsts[i].Host
	}
	conns := make([]*connRec, nC)
	for i := range conns {
		conns[i] = &connRec{Host: fmt.Sprintf("h%d:1", e.P(4))}
	}
	lclose := make([]bool, nL)
	for i := range lclose {
		lclose[i] = e.P(4) == 3
	}
	relisten := make([]bool, nL) // after its Close: a new listener on the same url, then the old one is closed once more
	for i := range relisten {
		relisten[i] = lclose[i] && e.P(3) == 2
	}
	shutDelay := e.P(6) // steps before Shutdown is called
	var modes []int
	for _, l := range lsts {
		modes = append(modes, l.Mode)
	}
	e.Describe("channel=%s listeners=%d(modes %v, explicit Close %v, restarted-after-Close %v) connects=%d external-dials=%d shutdown-after-steps=%d first-listen-fails=%v duplicate-async=%v accept-fault=%v panicking-active-handler=%v", cc, nL, modes, lclose, relisten, nC, nD, shutDelay, listenFail, dupAsync, acceptFail, panicActive)
	sh := &shutRec{}
	e.Go("main", func() {
		for i, l := range lsts {
			i, l := i, l
			l.L = rig.BS.Listen(l.URL)
			switch l.Mode {
			case 0:
				l.started()
				l.L.Async(func(err error) { l.end(e, err) })
			case 1:
				l.started()
				e.Go(fmt.Sprintf("sync%d", i), func() {
					err := l.L.Sync()
					if listenFail && err != nil && err != netty.ErrServerClosed {
						e.Count("listen_failed_then_retried", 1)
						err = l.L.Sync() // retry after the failed bind
					}
					l.end(e, err)
				})
			}
			if dupAsync && l.Mode != 2 && i == 0 {
				e.Go("dup-async", func() {
					e.Step()
					l.L.Async(func(err error) { l.dup(e, err) })
				})
			}
			if lclose[i] {
				e.Go(fmt.Sprintf("lclose%d", i), func() {
					e.Step()
					l.closed()
					l.L.Close()
					if relisten[i] {
						// restart the listener: a new Listener value under the same url (the only way to restart an accept
						// loop that ended); a late second Close of the OLD value must not touch the new one
						l2 := &lstRec{Host: l.Host, URL: l.URL, Mode: 0}
						l2.L = rig.BS.Listen(l.URL)
						l2.started()
						lsts = addLst(lsts, l2)
						l2.L.Async(func(err error) { l2.end(e, err) })
						e.Step()
						l.closed()
						l.L.Close()
						e.Count("listener_restarted_then_old_closed_again", 1)
					}
				})
			}
		}
		for i, c := range conns {
			i, c := i, c
			e.Go(fmt.Sprintf("connect%d", i), func() {
				e.Step()
				ch, err := rig.BS.Connect("sim://" + c.Host)
				c.set(ch, err)
			})
		}
		for i := 0; i < nD; i++ {
			i := i
			e.Go(fmt.Sprintf("dial%d", i), func() {
				e.Step()
				e.Step()
				if p := rig.F.Dial(fmt.Sprintf("h%d:1", i%4)); p != nil {
					e.Count("external_dial_queued", 1)
				} else {
					e.Count("external_dial_refused", 1)
				}
			})
		}
		if acceptFail {
			e.Go("accept-fault", func() {
				for w := 0; w < 6; w++ {
					e.Step()
					for _, a := range rig.F.Acceptors {
						if a.FailAt == 0 {
							a.FailAt = 2 // the second Accept call of this acceptor fails with a transient error
						}
					}
				}
			})
		}
		e.Go("shutdown", func() {
			for i := 0; i < shutDelay; i++ {
				e.Step()
			}
			sh.inv(e)
			rig.BS.Shutdown()
			sh.ret(e)
		})
	})
	end := e.RunToEnd()
	if end != simrt.EndQuiescent && end != simrt.EndAllDone {
		return
	}
	if sh.Ret == 0 {
		e.Violate("shutdown-returns", "stuck", "Shutdown did not return")
	}
	if rig.BS.Context().Err() == nil {
		e.Violate("context-cancelled", "not-cancelled", "bootstrap context not cancelled after Shutdown")
	}
	for _, a := range rig.F.Acceptors {
		if !a.Closed {
			started := "?"
			for _, ev := range rig.F.Log {
				if ev.Kind == "listen" && ev.Acc == a.ID {
					if ev.Seq > sh.Ret {
						started = "after Shutdown returned"
					} else if ev.Seq > sh.Inv {
						started = "while Shutdown was running"
					} else {
						started = "before Shutdown"
					}
				}
			}
			e.Violate("listener-stopped", "live-acceptor", "acceptor %d on %s is still open at quiescence (%d Accept outstanding, %d connections in backlog); its accept loop started %s", a.ID, a.Addr, a.Outstanding, len(a.Backlog()), started)
		} else if a.Outstanding != 0 {
			e.Violate("listener-stopped", "accept-outstanding", "acceptor %d closed but %d Accept calls still outstanding", a.ID, a.Outstanding)
		}
	}
	for i, l := range lsts {
		if !l.Started {
			continue
		}
		if !l.Ended {
			e.Violate("accept-loop-ends", fmt.Sprintf("mode=%d", l.Mode), "listener %d (%s): accept loop never ended after Shutdown", i, l.URL)
			continue
		}
		if l.DupDone && l.DupErr == netty.ErrServerClosed {
			continue // the duplicate Async call was the one that ran the accept loop, and it ended as required
		}
		if l.Err != netty.ErrServerClosed && l.CloseCalls == 0 && !(l.EndSeq < sh.Inv) && !listenFail && !acceptFail {
			// (a loop that ended before Shutdown began - failed Accept, failed Listen - ended with its own error)
			e.Violate("accept-loop-ends", "wrong-error", "listener %d (%s): accept loop ended with %q instead of the server-closed error", i, l.URL, errStr(l.Err))
		}
	}
	for i, c := range rig.F.Conns {
		if !c.Closed || c.CloseCount != 1 {
			e.Violate("channels-closed", fmt.Sprintf("closes=%d", c.CloseCount), "transport %d (%s) closed %d times at quiescence after Shutdown", i, c.Name, c.CloseCount)
		}
	}
	for i, p := range rig.Probes {
		// lifecycle order on every channel, client or accepted (C05's clause, checked here for the accept path)
		if act := p.Of("active"); len(act) == 1 {
			for _, rd := range p.Of("read") {
				if rd.Seq < act[0].End {
					e.Violate("active-before-reads", "channel", "channel %d: a read was delivered (@%d) before the active event completed (@%d)", i, rd.Seq, act[0].End)
				}
			}
		} else {
			// every channel the bootstrap served (Connect returned it / the accept loop handed it out) was activated
			// exactly once, however Shutdown overlapped its set-up
			e.Violate("active-once", fmt.Sprintf("count=%d", len(act)), "channel %d: active delivered %d times although the channel was served", i, len(act))
		}
		a, in := p.Count("active"), p.Count("inactive")
		if in > 1 || (a == 1 && in != 1) {
			e.Violate("inactive-once", fmt.Sprintf("active=%d,inactive=%d", a, in), "channel %d: active delivered %d times, inactive %d times at quiescence after Shutdown", i, a, in)
		}
	}
	for _, t := range rig.X.Tasks {
		if !t.Done() {
			e.Violate("no-task-left", t.StateName(), "executor task %s still alive (%s, at %s) at quiescence after Shutdown", t.Name, t.StateName(), simrt.SiteName(t.BlockedSite()))
		}
	}
	e.Count("acceptors_created", len(rig.F.Acceptors))
	e.Count("transports_created", len(rig.F.Conns))
	for _, ev := range rig.F.Log {
		if ev.Kind == "listen" && ev.Seq > sh.Inv {
			e.Count("listen_after_shutdown_began", 1)
		}
		if ev.Kind == "accept" && ev.Seq > sh.Inv {
			e.Count("accept_after_shutdown_began", 1)
		}
		if ev.Kind == "connect" && ev.Seq > sh.Inv {
			e.Count("connect_after_shutdown_began", 1)
		}
	}
	// teardown: stop what the system left behind
	e.Go("teardown", func() {
		for _, a := range rig.F.Acceptors {
			if !a.Closed {
				a.Close()
			}
		}
		for _, c := range rig.F.Conns {
			if !c.Closed {
				c.Close()
			}
		}
	})
	e.Sim.Run()
}
