package harness

import (
	"bytes"
	"fmt"
	"io"
	"runtime"

	netty "github.com/go-netty/go-netty"
	"github.com/go-netty/go-netty/codec/format"
	"github.com/go-netty/go-netty/codec/frame"
	"github.com/go-netty/go-netty/utils"
	"github.com/go-netty/go-netty/verifsim/simnet"
	"github.com/go-netty/go-netty/verifsim/simrt"
)

func init() { Register(&PropDef{ID: "C08", Run: runC08}) }

// strictSink reads every delivered frame to its end like the shipped message codecs do (a read error is
// raised as a panic), and records what it saw.
type strictSink struct {
	env      *Env
	conn     *simnet.Conn
	Frames   []*frameRec
	Ex       []error
	Limit    int
	Exceeded bool
	ch       netty.Channel
	Mode     int // 0 io.ReadAll, 1 utils.ToBytes (prefers WriteTo, like the text codec), 2 io.Copy into a buffer, 3 small Read calls
}

//go:norace
func (s *strictSink) add(data []byte, err error) {
	s.Frames = append(s.Frames, &frameRec{Data: data, Err: err, Consumed: s.conn.InboundConsumed()})
}

//go:norace
func (s *strictSink) addEx(err error) { s.Ex = append(s.Ex, err) }

//go:norace
func (s *strictSink) tooMany() bool {
	if len(s.Frames) > s.Limit {
		s.Exceeded = true
	}
	return s.Exceeded
}

func (s *strictSink) HandleRead(ctx netty.InboundContext, msg netty.Message) {
	if s.tooMany() {
		// endless deliveries: cut the run (flagged by the oracle)
		ctx.Close(fmt.Errorf("harness: delivery limit exceeded"))
		return
	}
	switch m := msg.(type) {
	case io.Reader:
		var data []byte
		var err error
		switch s.Mode {
		case 1:
			data, err = utils.ToBytes(m)
		case 2:
			var b bytes.Buffer
			_, err = io.Copy(&b, m)
			data = b.Bytes()
		case 3:
			buf := make([]byte, 5)
			for err == nil {
				var n int
				n, err = m.Read(buf)
				data = append(data, buf[:n]...)
			}
			if err == io.EOF {
				err = nil
			}
		default:
			data, err = io.ReadAll(m)
		}
		s.add(data, err)
		if err != nil {
			panic(err)
		}
	case []byte:
		s.add(append([]byte(nil), m...), nil)
	case string:
		s.add([]byte(m), nil)
	default:
		s.add(nil, fmt.Errorf("unexpected message type %T", msg))
	}
}

func (s *strictSink) HandleException(ctx netty.ExceptionContext, ex netty.Exception) {
	s.addEx(ex)
	ctx.HandleException(ex)
}

// runC08Chunk: the variable-length codec ("whatever one read delivers, at most max bytes"). It has no frame
// boundaries to get wrong; what it must keep is the maximum, the byte stream itself (nothing invented, lost or
// repeated) and the end-of-stream behaviour.
//
//go:norace
func runC08Chunk(e *Env) {
	max := e.PSize([]int{100, 64, 1000, 1500, 128, 5000, 1}, 6000)
	total := e.P(4*max + 2)
	if e.P(3) == 2 {
		total = 3*max + e.P(3*max+1) // long enough for several buffer-filling reads in a row
	}
	stream := make([]byte, total)
	rng := simrt.NewRng(uint64(total)*7919 + uint64(max))
	for i := range stream {
		stream[i] = byte(rng.Next())
	}
	var endErr error
	endName := "EOF"
	switch e.P(3) {
	case 0:
		endErr = io.EOF
	case 1:
		endErr, endName = simnet.ErrReset, "reset"
	case 2:
		endErr, endName = io.EOF, "timeout-then-EOF"
	}
	rig := e.NewRig(ChanCfg{}, false)
	rig.Conn.Frag = e.P(4)
	sink := &strictSink{env: e, conn: rig.Conn, Limit: total + 3}
	pl := netty.NewPipeline()
	pl.AddLast(frame.VariableLengthCodec(max), sink)
	ch := netty.NewChannel()(1, rig.Ctx, pl, rig.Conn, rig.X)
	sink.ch = ch
	bursts := []int{1, max / 2, max, max + 1, 2 * max, 3*max + 5, 7}
	e.Describe("decoder=variable-length(max=%d) stream: %d bytes, ends with %s, read fragmentation mode %d", max, total, endName, rig.Conn.Frag)
	e.Go("main", func() {
		pl.ServeChannel(ch)
		e.Go("peer", func() {
			rest := stream
			for len(rest) > 0 {
				e.Step()
				k := bursts[e.P(len(bursts))]
				if k < 1 {
					k = 1
				}
				if k > len(rest) {
					k = len(rest)
				}
				rig.Conn.Feed(rest[:k])
				rest = rest[k:]
				if e.P(3) == 0 {
					// let the channel drain what is there: the next burst meets an idle decoder
					for w := 0; w < 6; w++ {
						e.Step()
					}
				}
			}
			e.Step()
			if endName == "timeout-then-EOF" {
				rig.Conn.EndInput(simnet.ErrTimeout, true)
				e.Step()
				e.Step()
			}
			rig.Conn.EndInput(endErr, false)
		})
	})
	end := e.RunToEnd()
	cls := "variable-length"
	var got []byte
	prev := 0
	for i, f := range sink.Frames {
		if f.Err != nil {
			continue
		}
		if len(f.Data) > max {
			e.Violate("respects-maximum", cls, "delivery %d is a %d-byte message; the configured maximum is %d", i, len(f.Data), max)
			break
		}
		if pulled := f.Consumed - prev; pulled > max {
			e.Violate("bounded-read", cls, "delivery %d pulled %d bytes from the transport; the configured limit is %d", i, pulled, max)
			break
		}
		prev = f.Consumed
		got = append(got, f.Data...)
	}
	if len(got) > len(stream) || !bytes.Equal(got, stream[:len(got)]) {
		e.Violate("only-complete-frames", cls+",wrong-content", "the delivered messages (%d bytes in %d deliveries) are not a prefix of the %d bytes received: first difference at offset %d", len(got), len(sink.Frames), len(stream), firstDiff(got, stream))
	}
	if sink.Exceeded {
		e.Violate("no-endless-stream", cls, "more than %d messages were delivered for a %d-byte stream: the decoder keeps delivering after the stream ended", sink.Limit, len(stream))
	}
	for _, ex := range sink.Ex {
		if _, ok := ex.(runtime.Error); ok {
			e.Violate("no-runtime-fault", cls, "decoder failed with a runtime fault: %v", ex)
		}
	}
	if (end == simrt.EndQuiescent || end == simrt.EndAllDone) && !sink.Exceeded {
		if ch.IsActive() {
			e.Violate("closed-peer-closes-channel", cls, "the peer ended the stream (%s) but the channel is still active at quiescence", endName)
		}
		if endName != "reset" && len(sink.Ex) <= 1 && len(got) != len(stream) {
			// every byte that arrived before a clean end of stream was read by somebody: it must have been delivered
			e.Violate("only-complete-frames", cls+",bytes-lost", "%d of the %d bytes received before the end of the stream were delivered", len(got), len(stream))
		}
	}
	e.Count("kind:variable-length", 1)
	e.Count("eofs_fired", rig.Conn.Fired.EOFs)
	e.Count("resets_fired", rig.Conn.Fired.Resets)
	e.Count("timeouts_fired", rig.Conn.Fired.Timeouts)
	e.Count("decoder_exceptions", len(sink.Ex))
	e.Count("chunk_deliveries", len(sink.Frames))
	e.Go("teardown", func() { ch.Close(fmt.Errorf("teardown")) })
	e.Sim.Run()
}

//go:norace
func runC08(e *Env) {
	if e.P(8) == 7 {
		runC08Chunk(e)
		return
	}
	spec := drawFrameSpec(e)
	mode := e.P(3) // 0 valid frames + cut, 1 random bytes, 2 mutated header
	var stream []byte
	nFrames := 1 + e.P(4)
	var desc string
	var bounds []int
	for i := 0; i < nFrames; i++ {
		size := []int{6, 0, 1, 17, 255, 300, 1024, 2, 3, 7}[e.P(10)]
		if spec.Kind == fkFixed {
			size = spec.Fixed
		}
		p := framePayload(i, size)
		if spec.Kind == fkDelimiter {
			p = delimFree(p, spec.Delim)
		}
		if w, ok := spec.RefEncode(p); ok && spec.Admissible(p) {
			stream = append(stream, w...)
			bounds = append(bounds, len(stream))
		}
	}
	switch mode {
	case 0:
		// cut point: a frame boundary, inside a header, right after a header, inside a body
		if len(stream) > 0 {
			cut := len(stream)
			switch e.P(4) {
			case 1:
				cut = e.P(len(stream) + 1)
			case 2:
				if len(bounds) > 0 {
					cut = bounds[e.P(len(bounds))]
				}
			case 3:
				start := 0
				if k := e.P(len(bounds) + 1); k > 0 {
					start = bounds[k-1]
				}
				cut = start + e.P(4)
			}
			if cut > len(stream) {
				cut = len(stream)
			}
			stream = stream[:cut]
			desc = fmt.Sprintf("valid frames, stream cut after %d bytes", cut)
		}
	case 1:
		n := 1 + e.P(48)
		stream = nil
		for i := 0; i < n; i++ {
			stream = append(stream, byte(e.P(256)))
		}
		desc = fmt.Sprintf("%d random bytes", n)
	case 2:
		stream = mutateStream(e, spec, stream, bounds)
		desc = "valid frames with one mutated header"
		if spec.Max <= 5000 && e.P(3) != 0 {
			// plenty of bytes behind it: a decoder that believes an oversized header can be seen pulling more than its
			// maximum from the transport (admissible frames alone rarely add up to that much)
			for i := 0; i < spec.Max+64; i++ {
				stream = append(stream, 0xEE)
			}
			desc += fmt.Sprintf(" followed by %d filler bytes", spec.Max+64)
		}
	}
	var endErr error
	endName := "EOF"
	switch e.P(3) {
	case 0:
		endErr = io.EOF
	case 1:
		endErr, endName = simnet.ErrReset, "reset"
	case 2:
		endErr, endName = io.EOF, "timeout-then-EOF"
	}
	rig := e.NewRig(ChanCfg{}, false)
	rig.Conn.Frag = e.P(4)
	refFrames, _ := spec.RefDecode(stream)
	sink := &strictSink{env: e, conn: rig.Conn, Limit: len(refFrames) + 3, Mode: e.P(5)}
	pl := netty.NewPipeline()
	if sink.Mode == 4 {
		// the shipped text codec consumes the frames; the sink receives strings
		pl.AddLast(spec.Codec(), format.TextCodec(), sink)
	} else {
		pl.AddLast(spec.Codec(), sink)
	}
	ch := netty.NewChannel()(1, rig.Ctx, pl, rig.Conn, rig.X)
	sink.ch = ch
	e.Describe("decoder=%s stream: %s (%d bytes, %d complete frames per reference decoder), ends with %s, read fragmentation mode %d, downstream consumes frames via %s", spec, desc, len(stream), len(refFrames), endName, rig.Conn.Frag, []string{"io.ReadAll", "utils.ToBytes", "io.Copy", "5-byte Reads", "the text codec"}[sink.Mode])
	e.Go("main", func() {
		pl.ServeChannel(ch)
		e.Go("peer", func() {
			rest := stream
			for len(rest) > 0 {
				e.Step()
				k := len(rest)
				if e.P(2) == 1 {
					k = 1 + e.P(len(rest))
				}
				rig.Conn.Feed(rest[:k])
				rest = rest[k:]
			}
			e.Step()
			if endName == "timeout-then-EOF" {
				rig.Conn.EndInput(simnet.ErrTimeout, true)
				e.Step()
				e.Step()
			}
			rig.Conn.EndInput(endErr, false)
		})
	})
	end := e.RunToEnd()
	cls := spec.Class()
	// ---- oracle ----
	complete := 0
	for i, f := range sink.Frames {
		if f.Err != nil {
			continue
		}
		if complete >= len(refFrames) || !bytes.Equal(f.Data, refFrames[complete]) {
			kind := "phantom"
			if complete < len(refFrames) {
				kind = "wrong-content"
			} else if len(f.Data) > 0 {
				kind = "truncated-or-invented"
			}
			e.Violate("only-complete-frames", cls+","+kind, "delivery %d handed a %d-byte frame downstream as complete, but the bytes actually received (%d bytes, ended by %s) contain only %d complete frames (reference decoder)", i, len(f.Data), len(stream), endName, len(refFrames))
			break
		}
		complete++
		limit := spec.Max
		if spec.Kind == fkFixed {
			limit = spec.Fixed
		}
		if len(f.Data) > limit {
			e.Violate("respects-maximum", cls, "delivered frame of %d bytes exceeds the configured limit %d", len(f.Data), limit)
		}
	}
	// the data pulled from the transport for one delivery is bounded by the configured maximum plus its header
	prev := 0
	for i, f := range sink.Frames {
		pulled := f.Consumed - prev
		prev = f.Consumed
		bound := spec.Max + spec.Offset + spec.FieldLen + 10
		if spec.Kind == fkFixed {
			bound = spec.Fixed
		}
		if pulled > bound {
			e.Violate("bounded-read", cls, "delivery %d pulled %d bytes from the transport for one frame; the configured limit is %d", i, pulled, bound)
			break
		}
	}
	if sink.Exceeded {
		e.Violate("no-endless-stream", cls, "more than %d messages were delivered for a stream holding %d frames: the decoder keeps delivering after the stream ended", sink.Limit, len(refFrames))
	}
	for _, ex := range sink.Ex {
		if _, ok := ex.(runtime.Error); ok {
			e.Violate("no-runtime-fault", cls, "decoder failed with a runtime fault: %v", ex)
		}
	}
	if (end == simrt.EndQuiescent || end == simrt.EndAllDone) && !sink.Exceeded {
		// a closed peer must lead to a closed channel
		if ch.IsActive() {
			e.Violate("closed-peer-closes-channel", cls, "the peer ended the stream (%s) but the channel is still active at quiescence", endName)
		}
		if complete < len(refFrames) && len(sink.Ex) == 0 {
			e.Count("complete_frames_not_delivered_before_close", 1)
		}
	}
	e.Count("kind:"+fkNames[spec.Kind], 1)
	e.Count("stream_mode_"+[]string{"valid+cut", "random", "mutated"}[mode], 1)
	e.Count("eofs_fired", rig.Conn.Fired.EOFs)
	e.Count("resets_fired", rig.Conn.Fired.Resets)
	e.Count("timeouts_fired", rig.Conn.Fired.Timeouts)
	e.Count("decoder_exceptions", len(sink.Ex))
	e.Count("complete_frames_delivered", complete)
	e.Go("teardown", func() { ch.Close(fmt.Errorf("teardown")) })
	e.Sim.Run()
}

// mutateStream corrupts the header of one frame of a valid stream.
//
//go:norace
func mutateStream(e *Env, s *FrameSpec, stream []byte, bounds []int) []byte {
	out := append([]byte(nil), stream...)
	start := 0
	if len(bounds) > 0 {
		if k := e.P(len(bounds)); k > 0 {
			start = bounds[k-1]
		}
	}
	switch s.Kind {
	case fkLengthField, fkPrepender, fkLFRef:
		hdr := s.Offset + s.FieldLen
		if start+hdr > len(out) {
			return append(out, 0xFF, 0xFF, 0xFF, 0xFF, 0xFF, 0xFF, 0xFF, 0xFF, 0xFF, 0xFF, 0xFF, 0xFF, 0xFF)
		}
		f := out[start+s.Offset : start+hdr]
		switch e.P(6) {
		case 4, 5: // just below the largest positive 64-bit value: header length or adjustment make the sum overflow
			v := uint64(1<<63-1) - uint64(e.P(hdr+12))
			if s.FieldLen < 8 {
				v = s.fieldCapacity() - uint64(e.P(3))
			}
			copy(f, s.putLen(v))
		case 0: // maximal
			for i := range f {
				f[i] = 0xFF
			}
		case 1: // just above the maximum frame size
			copy(f, s.putLen(uint64(s.Max+1)&s.fieldCapacity()))
		case 2: // zero
			for i := range f {
				f[i] = 0
			}
		case 3: // high bit only (negative for 8-byte fields)
			for i := range f {
				f[i] = 0
			}
			if s.OrderLE {
				f[len(f)-1] = 0x80
			} else {
				f[0] = 0x80
			}
		}
	case fkVarint:
		// over-long varint
		long := bytes.Repeat([]byte{0xFF}, 9+e.P(4))
		long = append(long, 0x01)
		if e.P(2) == 1 {
			// ten-byte headers whose value overflows 64 bits: nine continuation bytes with few low bits set, then a
			// tenth byte above 1
			long = []byte{0x80 | byte(e.P(8))}
			for i := 1; i < 9; i++ {
				b := byte(0x80)
				if e.P(8) == 7 {
					b |= byte(e.P(8))
				}
				long = append(long, b)
			}
			long = append(long, byte(2+e.P(0x7e)))
		}
		out = append(append(append([]byte(nil), out[:start]...), long...), out[start:]...)
	case fkDelimiter:
		// no delimiter within the maximum frame length
		if s.Max <= 5000 {
			out = append(out[:start:start], bytes.Repeat([]byte{'q'}, s.Max+5)...)
		} else {
			out = append(out[:start:start], bytes.Repeat([]byte{'q'}, 40)...)
		}
	default:
		out = append(out, 'x')
	}
	return out
}
