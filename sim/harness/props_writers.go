package harness

import (
	"bytes"
	"context"
	"errors"
	"fmt"
	"io"
	"net"
	"time"

	netty "github.com/go-netty/go-netty"
	"github.com/go-netty/go-netty/verifsim/simnet"
	"github.com/go-netty/go-netty/verifsim/simrt"
)

var fiveEntries = []int{EWrite1, EWritev, ECtxWrite1, ECtxWritev, EWriterWrite}
var allEntries = []int{EWrite1, EWritev, ECtxWrite1, ECtxWritev, EWriterWrite, EReadFrom, EChWrite}

var queueSizes = []int{2, 1, 3, 8, 64}

// drawChan draws the channel flavour: async with a queue size and wait mode, or (when allowed) synchronous.
//
//go:norace
func (e *Env) drawBuffered(cc ChanCfg) ChanCfg {
	if e.P(5) == 4 {
		cc.WBuf = []int{16, 1, 64, 1024, 4096}[e.P(5)]
		if e.P(3) == 2 {
			cc.RBuf = []int{16, 4096}[e.P(2)]
		}
	} else if e.P(6) == 5 {
		cc.Wrap = true // the wrapper without write buffer (what the tcp transport uses by default), sometimes read-buffered
		cc.RBuf = []int{0, 16, 4096}[e.P(3)]
	}
	return cc
}

//go:norace
func (e *Env) drawChan(allowSync bool, qs []int) ChanCfg {
	n := 2
	if allowSync {
		n = 3
	}
	q := func() int {
		if e.P(4) == 3 {
			return e.PRange(1, 40) // queue sizes between the table entries
		}
		return qs[e.P(len(qs))]
	}
	switch e.P(n) {
	case 0:
		return ChanCfg{Async: true, Q: q(), Until: true}
	case 1:
		return ChanCfg{Async: true, Q: q(), Until: false}
	}
	return ChanCfg{}
}

func init() {
	Register(&PropDef{ID: "C01", Run: runC01})
	Register(&PropDef{ID: "C02", Run: runC02})
	Register(&PropDef{ID: "C06", Run: runC06})
	Register(&PropDef{ID: "C10", Run: runC10})
	Register(&PropDef{ID: "C11", Run: runC11})
	Register(&PropDef{ID: "C18", Run: runC18})
}

// C01: fault-free; the only adversary is the schedule, executor start and pool decisions.
//
//go:norace
func runC01(e *Env) {
	cfg := WCfg{Entries: fiveEntries, CtxModes: []int{CtxBackground, CtxNeverDone}, BigSizes: true}
	cfg.Chan = e.drawBuffered(e.drawChan(true, queueSizes))
	cfg.Writers = 1 + e.P(4)
	cfg.PerWriter = 1 + e.P(5)
	if e.P(8) == 7 {
		cfg.Writers, cfg.PerWriter = 5+e.P(2), 6+e.P(3) // beyond the usual small configurations
	}
	cfg.ExecDelay = e.P(2) == 1
	h := e.RunWriters(cfg)
	segs := h.OracleWireIntegrity(e, true)
	for _, c := range h.Calls {
		// with a transport that accepts everything, the only admissible error is a full queue in non-blocking mode
		if c.Returned && c.Err != nil && !(errors.Is(c.Err, netty.ErrAsyncNoSpace) && cfg.Chan.Async && !cfg.Chan.Until) {
			e.Violate("accepts", classOf(c, cfg.Chan), "%s failed although the transport accepts every write", c)
		}
	}
	_ = segs
	h.countProbes(e)
	h.Rig.Teardown()
}

// C02: writers finish, then nothing else touches the channel; judged at quiescence.
//
//go:norace
func runC02(e *Env) {
	cfg := WCfg{Entries: fiveEntries, CtxModes: []int{CtxBackground, CtxNeverDone}}
	cfg.Chan = e.drawChan(false, queueSizes)
	if e.P(8) == 7 {
		cfg.Chan = ChanCfg{}
	}
	cfg.Chan = e.drawBuffered(cfg.Chan)
	cfg.Writers = 1 + e.P(4)
	cfg.PerWriter = 1 + e.P(4)
	if e.P(8) == 7 {
		cfg.Writers, cfg.PerWriter = 5+e.P(2), 6+e.P(3)
	}
	cfg.ExecDelay = e.P(2) == 1
	cfg.BigSizes = e.P(4) == 3
	h := e.RunWriters(cfg)
	segs := h.OracleWireIntegrity(e, false)
	h.OracleNoStranded(e, segs)
	h.countProbes(e)
	h.Rig.Teardown()
}

// C06: writers finish, then Close.
//
//go:norace
func runC06(e *Env) {
	cfg := WCfg{Entries: fiveEntries, CtxModes: []int{CtxBackground}, CloseMode: 1, Closers: 1, CloseErr: errSentinel}
	cfg.Chan = e.drawChan(false, []int{2, 1, 4, 8})
	if e.P(10) == 9 {
		cfg.Chan = ChanCfg{}
	}
	cfg.Chan = e.drawBuffered(cfg.Chan)
	cfg.Writers = 1 + e.P(3)
	cfg.PerWriter = 1 + e.P(4)
	if e.P(8) == 7 && cfg.Chan.Async {
		// a long sender run: many payloads through a tiny queue, so that one sender task writes many batches in a row
		cfg.Writers, cfg.PerWriter = 4, 5+e.P(2)
		cfg.Chan.Q = 1 + e.P(2)
	}
	cfg.CloseHow = e.P(2)
	cfg.Stalls = true
	cfg.ExecDelay = e.P(3) == 2
	cfg.BigSizes = e.P(3) == 2 // payload sizes up to 70001 bytes: batches beyond the largest pool class
	h := e.RunWriters(cfg)
	segs := h.OracleWireIntegrity(e, false)
	h.OracleGracefulClose(e, segs)
	h.countProbes(e)
	h.Rig.Teardown()
}

// C10: callers poison their buffers right after the call; scribblers share the pool.
//
type sharedRec struct {
	Want     []byte // what the shared vector held when the call was made
	N        int64
	Err      error
	Done     bool
	Inv, Ret int64
}

//go:norace
func (r *sharedRec) begin(e *Env, vec [][]byte) {
	for _, b := range vec {
		for _, c := range b {
			r.Want = append(r.Want, c)
		}
	}
	r.Inv = e.Sim.NextEv()
}

//go:norace
func (r *sharedRec) finish(e *Env, n int64, err error) { r.N, r.Err, r.Done, r.Ret = n, err, true, e.Sim.NextEv() }

// runC10Shared: several goroutines write the SAME read-only vector (a pre-encoded frame broadcast or re-sent) to one
// channel. Nobody but the library touches the vector; what each call transmits must be what the vector held when
// that call was made.
//
//go:norace
func runC10Shared(e *Env) {
	cc := e.drawChan(true, queueSizes)
	if cc.Async {
		cc.Until = true
	}
	switch e.P(4) {
	case 1:
		cc.Wrap = true
		cc.RBuf = []int{0, 16}[e.P(2)]
	case 2:
		cc.WBuf = []int{16, 64, 4096}[e.P(3)]
	case 3:
		cc.WBuf, cc.RBuf = []int{16, 64, 4096}[e.P(3)], 16
	}
	size := e.PSize([]int{12, 2, 300, 1024, 2049, 5000}, 6000)
	payload := fillPayload(0, size)
	vec := split(append([]byte(nil), payload...), 1+e.P(3))
	writers := 2 + e.P(2)
	viaCtx := e.P(3) == 2
	recs := make([]*sharedRec, writers)
	for i := range recs {
		recs[i] = &sharedRec{}
	}
	e.Describe("channel=%s; %d goroutines write the same %d-element vector (%d bytes) with %s", cc, writers, len(vec), size, map[bool]string{false: "Writev", true: "CtxWritev"}[viaCtx])
	rig := e.NewRig(cc, false)
	e.Go("main", func() {
		rig.Serve()
		for w := 0; w < writers; w++ {
			r := recs[w]
			e.Go(fmt.Sprintf("writer%d", w), func() {
				e.Step()
				r.begin(e, vec)
				var n int64
				var err error
				if viaCtx {
					n, err = rig.Ch.CtxWritev(context.Background(), vec)
				} else {
					n, err = rig.Ch.Writev(vec)
				}
				r.finish(e, n, err)
			})
		}
	})
	end := e.RunToEnd()
	if end != simrt.EndQuiescent && end != simrt.EndAllDone {
		return
	}
	var wants [][]byte
	total, overlapped := 0, false
	for i, r := range recs {
		if !r.Done {
			e.Violate("snapshot", "shared-vector,call-stuck", "call %d on the shared vector did not return", i)
			return
		}
		if r.Err != nil {
			continue
		}
		if r.N != int64(len(r.Want)) {
			e.Violate("snapshot", "shared-vector,count", "call %d was made when the shared vector held %d bytes and reported %d bytes written without an error", i, len(r.Want), r.N)
		}
		wants = append(wants, r.Want)
		total += len(r.Want)
		for j, o := range recs {
			if j != i && o.Done && o.Inv < r.Ret && r.Inv < o.Ret {
				overlapped = true
			}
		}
	}
	wire := rig.Conn.Wire
	ok := len(wire) == total
	pos := 0
	used := make([]bool, len(wants))
	for ok && pos < len(wire) {
		found := false
		for k, w := range wants {
			if !used[k] && len(w) > 0 && pos+len(w) <= len(wire) && bytes.Equal(wire[pos:pos+len(w)], w) {
				used[k], found = true, true
				pos += len(w)
				break
			}
		}
		if !found {
			ok = false
		}
	}
	if !ok {
		e.Violate("snapshot", "shared-vector,sent-bytes-differ", "%d successful calls were made while the shared vector held %d bytes in total, but %d bytes were transmitted (or different ones): a call did not send what its buffer held when it was made", len(wants), total, len(wire))
	}
	if overlapped {
		e.Count("shared_vector_calls_overlapped", 1)
	}
	e.Count("shared_vector_runs", 1)
	rig.Teardown()
}

//go:norace
func runC10(e *Env) {
	if e.P(8) == 7 {
		runC10Shared(e)
		return
	}
	cfg := WCfg{Entries: fiveEntries, CtxModes: []int{CtxBackground}, Poison: true, BigSizes: true}
	cfg.Chan = e.drawBuffered(e.drawChan(true, queueSizes))
	cfg.Writers = 1 + e.P(3)
	cfg.PerWriter = 1 + e.P(4)
	cfg.Scribblers = e.P(3)
	if e.P(3) == 2 {
		// overload family: reader-typed messages (streamed through a pooled chunk buffer that is queued itself)
		// against a small non-blocking queue and a stalled sender, so that some writes are refused, followed by
		// more writes. Single-chunk readers only: larger ones are streamed as several writes (C09's subject).
		cfg.Entries = []int{EWrite1, EReadFrom, EReadFrom, EWritev, EWriterWrite, ECtxWrite1}
		cfg.Chan = ChanCfg{Async: true, Q: []int{1, 2, 3}[e.P(3)], Until: e.P(4) == 3}
		cfg.StallSender = e.P(2) == 0
		cfg.SmallReaders = true
		cfg.PerWriter = 2 + e.P(4)
	}
	if e.P(6) == 5 {
		// streaming family: ONE writer (reader-typed messages needing several reads are not contiguous under concurrent
		// writers - C09's known findings), readers with short reads and data+EOF, pool scribblers, sender often stalled so
		// that chunks stay queued while the pool is being churned
		cfg.Entries = []int{EReadFrom, EWrite1, EReadFrom, EWriterWrite}
		cfg.Chan = ChanCfg{Async: true, Q: []int{2, 8, 3}[e.P(3)], Until: true}
		cfg.Writers, cfg.PerWriter = 1, 2+e.P(4)
		cfg.SmallReaders, cfg.ReaderShort = false, true
		cfg.StallSender = e.P(2) == 0
		cfg.Scribblers = 1 + e.P(2)
	}
	h := e.RunWriters(cfg)
	segs, bad := parseWire(h.Rig.Conn, h.Calls)
	if bad != "" {
		e.Violate("snapshot", "sent-bytes-differ", "%s", bad)
	}
	_ = segs
	h.countProbes(e)
	h.Rig.Teardown()
}

// C11: writes after Close has returned (phase 1), for every entry point and Close argument.
//
//go:norace
func runC11(e *Env) {
	cfg := WCfg{Entries: allEntries, CtxModes: []int{CtxBackground, CtxNeverDone}, CloseMode: 1, Closers: 1, ReaderChunk: 256}
	cfg.Chan = e.drawChan(true, []int{2, 1, 8})
	cfg.Writers = e.P(3)
	cfg.PerWriter = 1 + e.P(2)
	switch e.P(5) {
	case 0:
		cfg.CloseErr = nil
	case 1:
		cfg.CloseErr = errSentinel
	case 2:
		cfg.CloseErr = fmt.Errorf("wrapped: %w", context.Canceled)
	case 3:
		cfg.CloseErr = io.EOF // the usual "peer hung up" reason
	case 4:
		cfg.CloseErr = fmt.Errorf("read failed: %w", io.EOF)
	}
	cfg.CloseHow = e.P(2)
	if e.P(8) == 7 {
		cfg.CloseHow = 3 // a handler closes the channel while the active event is still being delivered
		cfg.Writers = 0
	}
	cfg.PostClose = 1 + e.P(3)
	cfg.Closers = 1 + e.PB(2, 0.4) // sometimes two racing Close calls: a write after EITHER returned must fail
	if e.P(3) == 2 {
		cfg.CloseMode = 2 // writers overlap the Close; only the post-close calls are judged
	}
	h := e.RunWriters(cfg)
	segs, _ := parseWire(h.Rig.Conn, h.Calls)
	h.OracleClosedWritesFail(e, segs)
	// nothing may be accepted by the transport after it was closed
	closed := false
	for _, ev := range h.Rig.Conn.Log {
		if ev.Kind == simnet.EvClose {
			closed = true
		}
		if closed && isWriteEv(ev.Kind) && ev.N > 0 {
			e.Violate("nothing-transmitted", "bytes-after-transport-close", "transport accepted %d bytes after it was closed", ev.N)
		}
	}
	h.countProbes(e)
	h.Rig.Teardown()
}

// C18: back-pressure with a stalled sender.
//
//go:norace
func runC18(e *Env) {
	cfg := WCfg{Entries: fiveEntries, CtxModes: []int{CtxBackground, CtxNeverDone, CtxCancelled, CtxDeadline}}
	cfg.Chan = e.drawChan(false, []int{2, 1, 3, 8})
	cfg.Writers = 1 + e.P(4)
	cfg.PerWriter = 1 + e.P(5)
	cfg.StallSender = e.P(4) != 3
	cfg.ExecDelay = e.P(2) == 1
	cfg.BigSizes = e.P(4) == 3
	if e.P(3) == 2 {
		cfg.CloseMode = 2
		cfg.Closers = 1
		cfg.CloseErr = errSentinel
	}
	h := e.RunWriters(cfg)
	segs := h.OracleWireIntegrity(e, false)
	h.OracleBackPressure(e, segs)
	h.countProbes(e)
	h.Rig.Teardown()
}

// OracleBackPressure: C18.
//
//go:norace
func (h *WHist) OracleBackPressure(e *Env, segs []wseg) {
	cfg := h.Cfg
	conn := h.Rig.Conn
	on := make([]bool, len(h.Calls))
	for _, s := range segs {
		on[s.Call] = true
	}
	q := cfg.Chan.Q
	// packets (non-empty or empty) seen entering the transport before a given moment
	enteredBefore := func(seq int64) int {
		n := 0
		for _, ev := range conn.Log {
			if ev.Kind == simnet.EvWriteEnter && ev.Seq < seq {
				n += len(ev.Bufs)
			}
		}
		return n
	}
	for _, c := range h.Calls {
		if !c.Returned {
			continue
		}
		if !cfg.Chan.Until {
			if c.BlockedAt != 0 {
				e.Violate("non-blocking-never-waits", classOf(c, cfg.Chan), "%s parked in a blocking operation although the channel is in non-blocking mode", c)
			}
			if errors.Is(c.Err, netty.ErrAsyncNoSpace) {
				e.Count("nospace_returned", 1)
				// upper bound of the queue length during the call: everything that may have been enqueued before
				// it returned minus everything certainly dequeued before it began
				emax := 0
				for _, o := range h.Calls {
					if o != c && o.Inv > 0 && o.Inv < c.Ret && (!o.Returned || o.Err == nil) {
						emax++
					}
				}
				if emax-enteredBefore(c.Inv) < q {
					e.Violate("nospace-only-when-full", classOf(c, cfg.Chan), "%s reported a full queue although at most %d payloads can have been queued (queue size %d)", c, emax-enteredBefore(c.Inv), q)
				}
			}
		}
		if c.Err != nil {
			if on[c.Idx] {
				e.Violate("error-no-bytes", classOf(c, cfg.Chan), "%s returned an error but its payload was transmitted", c)
			}
			ok := false
			switch {
			case !cfg.Chan.Until && errors.Is(c.Err, netty.ErrAsyncNoSpace):
				ok = true
			case c.ctxErrWant != nil && errors.Is(c.Err, c.ctxErrWant):
				ok = true
				e.Count("ctx_error_returned", 1)
			case h.CloseCalled && c.Ret > h.CloseInv && (c.Err == cfg.CloseErr || errors.Is(c.Err, net.ErrClosed)):
				// the close error itself, or a generic "closed" error while the Close call is still in progress
				ok = true
				e.Count("close_error_returned_to_writer", 1)
			}
			if !ok {
				e.Violate("error-kind", classOf(c, cfg.Chan), "%s returned an error that is neither its context's error, the close error nor queue-full", c)
			}
		}
		if c.BlockedAt != 0 {
			e.Count("write_call_blocked_waiting", 1)
		}
		// blocking mode: waiting ends when the caller's context ends
		if cfg.Chan.Until && (c.Entry == ECtxWrite1 || c.Entry == ECtxWritev) {
			if c.CtxMode == CtxCancelled && (c.BlockedAt != 0 || c.WaitedMutex) {
				e.Violate("cancellable", classOf(c, cfg.Chan)+",already-cancelled", "%s was given an already cancelled context, yet it parked waiting for queue space", c)
			}
			if c.CtxMode == CtxDeadline && (c.BlockedAt != 0 || c.WaitedMutex) && c.RetAt-c.InvAt > 300*time.Millisecond {
				e.Violate("cancellable", classOf(c, cfg.Chan)+",deadline", "%s kept waiting for %v although its context expired after 300ms", c, c.RetAt-c.InvAt)
			}
		}
	}
	// accepted-but-unsent never exceeds queue size + the batch being sent
	type mark struct {
		seq  int64
		kind int // 0: a call returned success, 1: transport write completed
		n    int
	}
	for _, c := range h.Calls {
		if !(c.Returned && c.Err == nil) {
			continue
		}
		accepted := 0
		for _, o := range h.Calls {
			if o.Returned && o.Err == nil && o.Ret <= c.Ret {
				accepted++
			}
		}
		completed, batch := 0, 0
		for _, ev := range conn.Log {
			if (isWriteEv(ev.Kind) || ev.Kind == simnet.EvWriteErr) && ev.Seq < c.Ret {
				completed += len(ev.Bufs)
			}
		}
		// the batch in flight or the next one
		for _, ev := range conn.Log {
			if (isWriteEv(ev.Kind) || ev.Kind == simnet.EvWriteErr) && ev.Seq > c.Ret {
				batch = len(ev.Bufs)
				break
			}
		}
		if batch == 0 {
			for _, ev := range conn.Log {
				if ev.Kind == simnet.EvWriteEnter && ev.Seq > c.Ret {
					batch = len(ev.Bufs)
					break
				}
			}
		}
		if accepted-completed > q+batch {
			e.Violate("bounded-backlog", "more-than-queue-plus-batch", "when %s returned, %d payloads were accepted but only %d sent: more than queue size %d + batch %d", c, accepted, completed, q, batch)
		}
	}
}

// countProbes records rare-condition probes of the writers family.
//
//go:norace
func (h *WHist) countProbes(e *Env) {
	conn := h.Rig.Conn
	for _, ev := range conn.Log {
		if ev.Kind == simnet.EvWritev && len(ev.Bufs) > 1 {
			e.Count("sender_batch_gt1", 1)
		}
	}
	for _, c := range h.Calls {
		if c.BlockedAt != 0 {
			e.Count("call_blocked_in_primitive", 1)
		}
		if c.WaitedMutex {
			e.Count("call_waited_for_write_lock", 1)
		}
		if c.Returned && c.Err != nil {
			e.Count("call_returned_error", 1)
		}
	}
	e.Count("write_stalls_fired", conn.Fired.WriteStalls)
	e.Count("write_after_transport_close", conn.Fired.WriteAfterClose)
	e.Count("sim_stalls", e.Sim.Stalls)
}
