package harness

import (
	"bytes"
	"io"
	"strings"

	"github.com/go-netty/go-netty/verifsim/simrt"
)

// Outbound message carriers (what reaches the head of the pipeline).
const (
	caBytes = iota
	caBytesV       // [][]byte
	caBuffer       // *bytes.Buffer
	caWriterTo1    // io.WriterTo performing one Write (bytes.Reader)
	caReaderSmall  // plain io.Reader delivering everything (<= 1024 bytes) in one read
	caWriterToN    // io.WriterTo writing in several chunks, reusing its chunk buffer (legal per io.Writer contract)
	caReaderStream // plain io.Reader needing several reads (short reads / > 1024 bytes)
	caString       // string (only below a codec that accepts strings)
	nCarriers
)

var carrierNames = []string{"[]byte", "[][]byte", "*bytes.Buffer", "io.WriterTo(single-write)", "io.Reader(single-read)",
	"io.WriterTo(multi-write)", "io.Reader(multi-read)", "string"}

// fragReader is a plain io.Reader (no WriterTo) whose reads are cut according to a fixed plan.
type fragReader struct {
	b        []byte
	plan     []int // sizes of successive reads (0 = a zero-length read); afterwards: as much as fits
	eofWith  bool  // deliver io.EOF together with the last data
	step     int
	maxRead  int // after the plan: no read delivers more than this (0: no limit)
	every    int // after the plan: every every-th read is an empty (0, nil) read - legal, "discouraged" by io.Reader
	reads    int
}

func (r *fragReader) Read(p []byte) (int, error) {
	if len(r.b) == 0 {
		return 0, io.EOF
	}
	n := len(p)
	if r.step < len(r.plan) {
		if r.plan[r.step] < n {
			n = r.plan[r.step]
		}
		r.step++
	} else {
		r.reads++
		if r.every > 0 && r.reads%r.every == 0 {
			return 0, nil
		}
		if r.maxRead > 0 && n > r.maxRead {
			n = r.maxRead
		}
	}
	if n > len(r.b) {
		n = len(r.b)
	}
	copy(p, r.b[:n])
	r.b = r.b[n:]
	if len(r.b) == 0 && r.eofWith && n > 0 {
		return n, io.EOF
	}
	return n, nil
}

// chunkWriterTo writes its content in chunks through one reused buffer.
type chunkWriterTo struct {
	b     []byte
	chunk int
}

func (c *chunkWriterTo) WriteTo(w io.Writer) (int64, error) {
	buf := make([]byte, c.chunk)
	var total int64
	for off := 0; off < len(c.b); off += c.chunk {
		n := copy(buf, c.b[off:])
		m, err := w.Write(buf[:n])
		total += int64(m)
		if err != nil {
			return total, err
		}
	}
	return total, nil
}

// makeCarrier wraps content into the given carrier. frag draws from the tape (may be nil: default plan).
//
//go:norace
func makeCarrier(kind int, content []byte, e *Env) interface{} {
	c := append([]byte(nil), content...)
	switch kind {
	case caBytes:
		return c
	case caBytesV:
		return split(c, 3)
	case caBuffer:
		return bytes.NewBuffer(c)
	case caWriterTo1:
		return bytes.NewReader(c)
	case caReaderSmall:
		return &fragReader{b: c, eofWith: e != nil && e.P(2) == 1}
	case caWriterToN:
		ch := 1 + len(c)/3
		if e != nil {
			ch = 1 + len(c)/40 + e.P(len(c)/2+2) // at most ~40 chunks
		}
		return &chunkWriterTo{b: c, chunk: ch}
	case caReaderStream:
		r := &fragReader{b: c}
		if e != nil {
			r.eofWith = e.P(2) == 1
			for i := 0; i < 4; i++ {
				r.plan = append(r.plan, []int{1, 0, 2, 7, 1023, 1024, 100000}[e.P(7)])
			}
			if len(c) >= 200 && e.P(8) == 7 {
				// a slow source: many small reads, every 2nd or 3rd of them empty, over the whole message
				r.maxRead = 1 + len(c)/(110+e.P(150))
				r.every = 2 + e.P(2)
			}
		} else {
			r.plan = []int{1, 0, 2}
		}
		return r
	case caString:
		return string(c)
	}
	return c
}

// msgPayload builds a unique, delimiter-free message body: first byte identifies the message.
//
//go:norace
func msgPayload(id, size int) []byte {
	if size < 1 {
		size = 1
	}
	b := make([]byte, size)
	r := simrt.NewRng(uint64(id)*104729 + 5)
	for i := range b {
		b[i] = 'a' + byte(r.Next()%26) // never '$', '\r', '\n'
	}
	b[0] = 'A' + byte(id%26)
	if size > 1 {
		b[1] = '0' + byte(id/26%10)
	}
	return b
}

var _ = strings.NewReader
