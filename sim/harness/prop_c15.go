package harness

import (
	"bufio"
	"bytes"
	"fmt"
	"io"
	"net/http"
	"strings"

	netty "github.com/go-netty/go-netty"
	"github.com/go-netty/go-netty/codec/xhttp"
	"github.com/go-netty/go-netty/verifsim/simnet"
	"github.com/go-netty/go-netty/verifsim/simrt"
)

func init() {
	Register(&PropDef{ID: "C15", Run: runC15})
	c12Families = append(c12Families, runC15Multi) // process-wide codec state shared by concurrently served connections
}

type httpReq struct {
	ID       int
	Method   string
	Target   string
	Proto10  bool
	ConnHdr  string // "", "close", "keep-alive"
	BodyMode int    // 0 none, 1 content-length, 2 chunked
	Body     []byte
	Wire     []byte
	AsksClose bool
	// handler program
	ReadBody int // 0 none, 1 half, 2 all
	RespMode int // 0 explicit Content-Length, 1 chunked, 2 neither
	Status   int
	Writes   [][]byte
	Flush    int // 0 never, 1 after the first write, 2 at the end
	Copy     bool // body written with io.Copy from a plain reader (no WriteTo) instead of Write
	LateRead bool // the handler reads the request body after it has produced its response
	SelfClose bool // the handler finishes the response itself through io.Closer
	Bodiless  bool // reply to HEAD, or status 204/304: a response without a body whatever the handler writes
	Late      int  // header set too late: 1 Content-Length after the first Write, 2 Transfer-Encoding after WriteHeader, 3 Content-Length after Flush
	TECap     bool // "Transfer-Encoding: Chunked" (header values are case-insensitive)
	Trailer   bool // chunked response with a declared trailer field
}

type httpSeen struct {
	ID     string
	Method string
	Target string
	Proto  string
	Body   []byte
	Panic  interface{}
}

type httpLog struct {
	Seen []*httpSeen
}

//go:norace
func (l *httpLog) add(s *httpSeen) { l.Seen = append(l.Seen, s) }

var httpWriteSizes = []int{10, 0, 1, 2047, 2048, 2049, 5000}

//go:norace
func drawHTTPReq(e *Env, id int) *httpReq {
	r := &httpReq{ID: id}
	r.Method = []string{"GET", "POST", "PUT", "GET", "HEAD"}[e.P(5)]
	r.Target = []string{"/", "/a/b?x=1&y=2", "/" + strings.Repeat("p", 300)}[e.P(3)]
	r.Proto10 = e.P(4) == 3
	r.ConnHdr = []string{"", "close", "keep-alive"}[e.PB(3, 0.3)]
	if r.Proto10 && e.P(2) == 1 {
		r.ConnHdr = "keep-alive" // an HTTP/1.0 client that keeps the connection: later requests are still served
	}
	if r.Method != "GET" && r.Method != "HEAD" {
		r.BodyMode = 1 + e.P(2)
		if r.Proto10 {
			r.BodyMode = 1
		}
		r.Body = fillPayload(id, []int{12, 0, 1, 700, 5000, 70000}[e.P(6)])
		for i := range r.Body {
			r.Body[i] = 'a' + r.Body[i]%26
		}
	}
	r.ReadBody = e.P(3)
	r.RespMode = e.P(3)
	r.Status = []int{200, 201, 404, 500, 200, 204, 304}[e.P(7)]
	r.Bodiless = r.Method == "HEAD" || r.Status == 204 || r.Status == 304
	if r.Bodiless && r.RespMode == 2 {
		r.RespMode = e.P(2) // (whether a body-less response without any length header ends the connection is left open)
	}
	for i, n := 0, e.P(4); i < n; i++ {
		w := fillPayload(id*7+i, httpWriteSizes[e.P(len(httpWriteSizes))])
		for j := range w {
			w[j] = 'A' + w[j]%26
		}
		r.Writes = append(r.Writes, w)
	}
	r.Flush = e.PB(3, 0.35)
	if r.RespMode == 2 && !r.Bodiless && e.P(4) == 3 {
		r.Late = 1 + e.P(3)
		if len(r.Writes) == 0 {
			r.Writes = [][]byte{[]byte("late-header-body")}
		}
		if len(r.Writes[0]) == 0 {
			r.Writes[0] = []byte("first-write") // (an empty io.Copy performs no Write: the header block would still be unsent)
		}
		if r.Late == 3 {
			r.Flush = 0
		}
	}
	if r.RespMode == 1 {
		r.TECap = e.P(6) == 5
		r.Trailer = !r.Proto10 && !r.Bodiless && e.P(6) == 5
	}
	r.Copy = e.P(5) == 4
	r.LateRead = e.P(4) == 3
	r.SelfClose = e.P(6) == 5
	// wire form
	var b bytes.Buffer
	proto := "HTTP/1.1"
	if r.Proto10 {
		proto = "HTTP/1.0"
	}
	fmt.Fprintf(&b, "%s %s %s\r\nHost: example.test\r\nX-Id: %d\r\n", r.Method, r.Target, proto, id)
	if r.ConnHdr != "" {
		fmt.Fprintf(&b, "Connection: %s\r\n", r.ConnHdr)
	}
	switch r.BodyMode {
	case 1:
		fmt.Fprintf(&b, "Content-Length: %d\r\n\r\n", len(r.Body))
		b.Write(r.Body)
	case 2:
		b.WriteString("Transfer-Encoding: chunked\r\n\r\n")
		rest := r.Body
		for len(rest) > 0 {
			k := len(rest)
			if k > 1000 {
				k = 1000
			}
			fmt.Fprintf(&b, "%x\r\n", k)
			b.Write(rest[:k])
			b.WriteString("\r\n")
			rest = rest[k:]
		}
		b.WriteString("0\r\n\r\n")
	default:
		b.WriteString("\r\n")
	}
	r.Wire = b.Bytes()
	r.AsksClose = r.ConnHdr == "close" || (r.Proto10 && r.ConnHdr != "keep-alive")
	return r
}

func (r *httpReq) respBody() []byte {
	var out []byte
	for _, w := range r.Writes {
		out = append(out, w...)
	}
	return out
}

func (r *httpReq) String() string {
	proto := "1.1"
	if r.Proto10 {
		proto = "1.0"
	}
	var ws []int
	for _, w := range r.Writes {
		ws = append(ws, len(w))
	}
	return fmt.Sprintf("#%d %s %s HTTP/%s conn=%q body-mode=%d(%d bytes) | handler: read-body=%d resp-mode=%d(0 CL,1 chunked,2 neither) status=%d writes=%v flush=%d io.Copy=%v read-body-after-responding=%v late-header=%d te-capitalised=%v trailer=%v", r.ID, r.Method, clipS(r.Target, 20), proto, r.ConnHdr, r.BodyMode, len(r.Body), r.ReadBody, r.RespMode, r.Status, ws, r.Flush, r.Copy, r.LateRead, r.Late, r.TECap, r.Trailer)
}

// expectBody is what a standard parser must read back as the body.
func (r *httpReq) expectBody() []byte {
	if r.Bodiless {
		return nil
	}
	return r.respBody()
}

// closeDelimited: the response ends where the connection ends (no usable length information on the wire).
func (r *httpReq) closeDelimited() bool {
	if r.Bodiless {
		return false
	}
	return r.RespMode == 2 || (r.Proto10 && r.RespMode == 1) // HTTP/1.0 has no chunked transfer coding
}

func (r *httpReq) class() string {
	c := fmt.Sprintf("resp-mode=%d,flush=%d", r.RespMode, r.Flush)
	switch {
	case r.Method == "HEAD":
		c += ",head"
	case r.Bodiless:
		c += ",bodiless-status"
	}
	if r.Proto10 && r.RespMode == 1 {
		c += ",http10-chunked"
	}
	if r.Late > 0 {
		c += fmt.Sprintf(",late-header=%d", r.Late)
	}
	if r.TECap {
		c += ",te-capitalised"
	}
	if r.Trailer {
		c += ",trailer"
	}
	return c
}

//go:norace
func runC15(e *Env) {
	if e.P(6) == 5 {
		runC15Multi(e)
		return
	}
	cc := e.drawChan(true, []int{8, 2, 64})
	if cc.Async {
		// In non-blocking queue mode a full queue legitimately refuses part of a response (C18); the property
		// speaks about what the codec emits, not about a transport that rejects writes.
		cc.Until = true
	}
	n := 1 + e.P(5)
	var reqs []*httpReq
	for i := 0; i < n; i++ {
		reqs = append(reqs, drawHTTPReq(e, i))
	}
	pipelined := e.P(2) == 0
	e.Describe("channel=%s requests=%d pipelined=%v", cc, n, pipelined)
	for _, r := range reqs {
		e.Describe("%s", r)
	}
	log := &httpLog{}
	handler := c15Handler(reqs, log.add)
	rig := e.NewRig(cc, false)
	pl := netty.NewPipeline()
	pl.AddLast(xhttp.ServerCodec(), xhttp.Handler(handler))
	ch := cc.Factory()(1, rig.Ctx, pl, rig.Conn, rig.X)
	rig.Conn.Frag = e.P(4)
	e.Go("main", func() {
		pl.ServeChannel(ch)
		e.Go("peer", func() {
			for i, r := range reqs {
				rest := r.Wire
				for len(rest) > 0 {
					e.Step()
					k := len(rest)
					if e.P(3) == 2 {
						k = 1 + e.P(len(rest))
					}
					rig.Conn.Feed(rest[:k])
					rest = rest[k:]
				}
				if !pipelined {
					// wait (bounded) until some response bytes for this request showed up or the server closed
					for w := 0; w < 60 && !rig.Conn.Closed && countResponses(rig.Conn.Wire) <= i; w++ {
						e.Step()
					}
				}
			}
		})
	})
	end := e.RunToEnd()
	c15Oracle(e, reqs, log.Seen, rig.Conn, end, pipelined)
	e.Count("short_reads_fired", rig.Conn.Fired.ShortReads)
	e.Go("teardown", func() { ch.Close(fmt.Errorf("teardown")) })
	e.Sim.Run()
}

// prevClass describes the request preceding request i (its unread body is what usually breaks request i).
//
//go:norace
func prevClass(reqs []*httpReq, i int) string {
	if i == 0 {
		return "first"
	}
	p := reqs[i-1]
	return fmt.Sprintf("after(body-mode=%d,read-body=%d,flush=%d)", p.BodyMode, p.ReadBody, p.Flush)
}

//go:norace
func countResponses(wire []byte) int { return bytes.Count(wire, []byte("HTTP/1.")) }

var _ = simnet.FragWhole

// c15Handler is the http.Handler shared by all connections of a run: it executes the program of the request it
// is given (found by the X-Id header) and reports what it saw.
func c15Handler(reqs []*httpReq, add func(s *httpSeen)) http.Handler {
	return http.HandlerFunc(func(w http.ResponseWriter, hr *http.Request) {
		seen := &httpSeen{ID: hr.Header.Get("X-Id"), Method: hr.Method, Target: hr.URL.RequestURI(), Proto: hr.Proto}
		add(seen)
		var id int
		fmt.Sscanf(seen.ID, "%d", &id)
		if id < 0 || id >= len(reqs) || seen.ID == "" {
			return
		}
		r := reqs[id]
		readBody := func() {
			switch r.ReadBody {
			case 1:
				buf := make([]byte, len(r.Body)/2)
				k, _ := io.ReadFull(hr.Body, buf)
				seen.Body = buf[:k]
			case 2:
				seen.Body, _ = io.ReadAll(hr.Body)
			}
		}
		if !r.LateRead {
			readBody()
		} else {
			defer readBody() // respond first, read the request body afterwards
		}
		w.Header().Set("X-Resp", seen.ID)
		switch r.RespMode {
		case 0:
			w.Header().Set("Content-Length", fmt.Sprint(len(r.respBody())))
		case 1:
			if r.TECap {
				w.Header().Set("Transfer-Encoding", "Chunked")
			} else {
				w.Header().Set("Transfer-Encoding", "chunked")
			}
			if r.Trailer {
				w.Header().Set("Trailer", "X-T")
			}
		}
		if r.Status != 200 || len(r.Writes) == 0 || r.Late == 2 {
			w.WriteHeader(r.Status)
		}
		if r.Late == 2 {
			w.Header().Set("Transfer-Encoding", "chunked") // too late: the header block has been produced
		}
		if r.Late == 3 {
			w.(http.Flusher).Flush()
			w.Header().Set("Content-Length", fmt.Sprint(len(r.respBody())))
		}
		for i, b := range r.Writes {
			if r.Copy {
				io.Copy(w, &fragReader{b: append([]byte(nil), b...), plan: []int{3, 100}})
			} else {
				w.Write(b)
			}
			if i == 0 && r.Late == 1 {
				w.Header().Set("Content-Length", fmt.Sprint(len(r.respBody())))
			}
			if i == 0 && r.Flush == 1 {
				w.(http.Flusher).Flush()
			}
		}
		if r.Trailer {
			w.Header().Set("X-T", "trailer-of-"+seen.ID)
		}
		if r.Flush == 2 {
			w.(http.Flusher).Flush()
		}
		if r.SelfClose {
			if c, ok := w.(io.Closer); ok {
				c.Close() // a handler that finishes its response itself; the adapter closes once more afterwards
			}
		}
	})
}

// c15Oracle judges one connection: the requests sent on it, what the handler saw for them, and the bytes the
// server wrote.
//
//go:norace
func c15Oracle(e *Env, reqs []*httpReq, seen []*httpSeen, conn *simnet.Conn, end string, pipelined bool) {
	// ---- oracle ----
	// which requests must be served: up to and including the first one after which the connection closes
	served := 0
	mustClose := false
	for _, r := range reqs {
		served++
		if r.AsksClose || r.closeDelimited() {
			mustClose = true
			break
		}
	}
	cls := func(r *httpReq) string { return r.class() }
	for _, t := range e.EscapedPanics() {
		_ = t
	}
	// handler invocations
	for i := 0; i < served; i++ {
		r := reqs[i]
		if i >= len(seen) {
			e.Violate("handler-once-per-request", "missing,"+prevClass(reqs, i), "request %d (%s %s) never reached the handler (%d invocations for %d requests to be served)", i, r.Method, clipS(r.Target, 20), len(seen), served)
			break
		}
		s := seen[i]
		if s.ID != fmt.Sprint(r.ID) || s.Method != r.Method || s.Target != r.Target {
			e.Violate("handler-once-per-request", "wrong-request,"+prevClass(reqs, i), "handler invocation %d saw %s %s (X-Id %q) instead of request %d (%s %s)", i, s.Method, clipS(s.Target, 30), s.ID, i, r.Method, clipS(r.Target, 30))
			break
		}
		if r.ReadBody == 1 && !bytes.Equal(s.Body, r.Body[:len(r.Body)/2]) {
			e.Violate("handler-once-per-request", "wrong-body", "handler asked for the first %d body bytes of request %d and got %d bytes that differ from the request's own body", len(r.Body)/2, i, len(s.Body))
		}
		if r.ReadBody == 2 && !bytes.Equal(s.Body, r.Body) {
			e.Violate("handler-once-per-request", "wrong-body", "handler read %d body bytes for request %d instead of its %d-byte body", len(s.Body), i, len(r.Body))
		}
	}
	if len(seen) > served && len(e.Viol) == 0 {
		s := seen[served]
		e.Violate("handler-once-per-request", "extra-invocation,after:"+cls(reqs[served-1]), "handler invoked %d times for %d requests to be served; extra invocation saw %s %s (X-Id %q)", len(seen), served, s.Method, clipS(s.Target, 30), s.ID)
	}
	// responses as a standard parser reads them back
	if len(e.Viol) == 0 {
		br := bufio.NewReader(bytes.NewReader(conn.Wire))
		for i := 0; i < served; i++ {
			r := reqs[i]
			resp, err := http.ReadResponse(br, &http.Request{Method: r.Method})
			if err != nil {
				e.Violate("one-response-per-request", "unparsable,"+cls(r), "response %d of %d cannot be parsed by net/http: %v (request %s)", i, served, err, r)
				break
			}
			body, berr := io.ReadAll(resp.Body)
			if berr != nil {
				e.Violate("one-response-per-request", "body-unreadable,"+cls(r), "body of response %d cannot be read: %v (request %s)", i, berr, r)
				break
			}
			if resp.StatusCode != r.Status || resp.Header.Get("X-Resp") != fmt.Sprint(r.ID) {
				e.Violate("one-response-per-request", "wrong-response,"+cls(r), "response %d has status %d / X-Resp %q, expected %d / %q", i, resp.StatusCode, resp.Header.Get("X-Resp"), r.Status, fmt.Sprint(r.ID))
				break
			}
			if !bytes.Equal(body, r.expectBody()) {
				e.Violate("one-response-per-request", "wrong-body,"+cls(r), "response %d carries a %d-byte body, expected %d bytes (the handler wrote %d; first difference at %d)", i, len(body), len(r.expectBody()), len(r.respBody()), firstDiff(body, r.expectBody()))
				break
			}
			if i < served-1 {
				// what follows must be the next response, not stray bytes belonging to none
				if pk, _ := br.Peek(5); string(pk) != "HTTP/" {
					e.Violate("one-response-per-request", "stray-bytes-after,"+cls(r), "response %d is followed by bytes that belong to no response: %q", i, clip(pk, 20))
					break
				}
			}
			if r.Trailer && resp.Trailer.Get("X-T") != "trailer-of-"+fmt.Sprint(r.ID) {
				e.Violate("one-response-per-request", "wrong-trailer,"+cls(r), "response %d declared the trailer X-T; after its body the parser finds X-T=%q instead of %q", i, resp.Trailer.Get("X-T"), "trailer-of-"+fmt.Sprint(r.ID))
				break
			}
		}
		if len(e.Viol) == 0 {
			if rest, _ := io.ReadAll(br); len(rest) > 0 {
				e.Violate("one-response-per-request", "extra-bytes", "%d bytes follow the last expected response: %q", len(rest), clip(rest, 40))
			}
		}
	}
	// connection handling
	quiet := end == simrt.EndQuiescent || end == simrt.EndAllDone
	if quiet && len(e.Viol) == 0 {
		if mustClose && !conn.Closed {
			e.Violate("close-decision", "left-open,"+cls(reqs[served-1]), "the connection must be closed after response %d (request asked to close or response is not self-delimiting) but it is still open", served-1)
		}
		if !mustClose && conn.Closed {
			e.Violate("close-decision", "closed-early", "every request was keep-alive and every response self-delimiting, yet the connection was closed")
		}
		if conn.Closed && conn.Unflushed > 0 {
			e.Violate("close-after-flush", "unflushed", "connection closed with %d response bytes not flushed", conn.Unflushed)
		}
	}
	e.Count("requests_served", len(seen))
	if pipelined {
		e.Count("pipelined_runs", 1)
	}
	for _, r := range reqs[:served] {
		e.Count(fmt.Sprintf("resp_mode_%d", r.RespMode), 1)
		if r.Flush > 0 {
			e.Count("explicit_flush_programs", 1)
		}
		if r.BodyMode > 0 && r.ReadBody < 2 {
			e.Count("unread_request_bodies", 1)
		}
	}
}

// runC15Multi: several connections of one server process. The codec keeps process-wide state (pooled writers),
// so what happened on one connection - here: a response finished by the handler itself whose final flush failed
// because the transport was broken - must not leak into the responses of other connections that are served
// concurrently afterwards.
//
//go:norace
func runC15Multi(e *Env) {
	type connRec struct {
		rig  *Rig
		ch   netty.Channel
		pl   netty.Pipeline
		reqs []*httpReq
		log  *httpLog
	}
	var all []*httpReq
	conns := make([]*connRec, 3)
	for c := range conns {
		cc := e.drawChan(true, []int{8, 2})
		if cc.Async {
			cc.Until = true
		}
		if c == 0 {
			cc = ChanCfg{} // the broken connection is synchronous: its transport error reaches the response writer
		}
		cr := &connRec{log: &httpLog{}}
		n := 1 + e.P(2)
		if c == 0 {
			n = 1
		}
		for i := 0; i < n; i++ {
			r := drawHTTPReq(e, len(all))
			if c == 0 {
				r.SelfClose, r.Flush, r.ConnHdr, r.Proto10 = true, 0, "", false
				if len(r.Writes) == 0 {
					r.Writes = [][]byte{[]byte("BODY")}
				}
			}
			all = append(all, r)
			cr.reqs = append(cr.reqs, r)
		}
		cr.rig = e.NewRig(cc, false)
		conns[c] = cr
	}
	// the handler finds the connection of a request by its id
	owner := func(id string) *connRec {
		for _, cr := range conns {
			for _, r := range cr.reqs {
				if fmt.Sprint(r.ID) == id {
					return cr
				}
			}
		}
		return conns[0]
	}
	handler := c15Handler(all, func(s *httpSeen) { owner(s.ID).log.add(s) })
	for c, cr := range conns {
		cr.pl = netty.NewPipeline()
		cr.pl.AddLast(xhttp.ServerCodec(), xhttp.Handler(handler))
		cfg := ChanCfg{Async: cr.rig.Async, Q: cr.rig.Q, Until: cr.rig.Until}
		cr.ch = cfg.Factory()(int64(c+1), cr.rig.Ctx, cr.pl, cr.rig.Conn, cr.rig.X)
		cr.rig.Conn.Frag = e.P(4)
	}
	conns[0].rig.Conn.FailWriteAt, conns[0].rig.Conn.FailWriteErr = 1, simnet.ErrReset
	e.Describe("three connections; connection 0 (synchronous, transport writes fail) serves one request whose handler finishes the response itself; connections 1 and 2 are served concurrently afterwards")
	for c, cr := range conns {
		for _, r := range cr.reqs {
			e.Describe("conn %d: %s", c, r)
		}
	}
	feed := func(cr *connRec) {
		for _, r := range cr.reqs {
			rest := r.Wire
			for len(rest) > 0 {
				e.Step()
				k := len(rest)
				if e.P(3) == 2 {
					k = 1 + e.P(len(rest))
				}
				cr.rig.Conn.Feed(rest[:k])
				rest = rest[k:]
			}
		}
	}
	e.Go("main", func() {
		conns[0].pl.ServeChannel(conns[0].ch)
		feed(conns[0])
		for w := 0; w < 300 && len(conns[0].log.Seen) == 0; w++ {
			e.Step()
		}
		for w := 0; w < 40; w++ {
			e.Step() // let the failed response be finished
		}
		for c := 1; c < len(conns); c++ {
			cr := conns[c]
			cr.pl.ServeChannel(cr.ch)
			e.Go(fmt.Sprintf("peer%d", c), func() { feed(cr) })
		}
	})
	end := e.RunToEnd()
	for c := 1; c < len(conns); c++ {
		c15Oracle(e, conns[c].reqs, conns[c].log.Seen, conns[c].rig.Conn, end, true)
	}
	e.Count("multi_connection_runs", 1)
	e.Count("write_errors_fired", conns[0].rig.Conn.Fired.WriteErrs)
	e.Go("teardown", func() {
		for _, cr := range conns {
			cr.ch.Close(fmt.Errorf("teardown"))
		}
	})
	e.Sim.Run()
}
