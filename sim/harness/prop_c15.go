package harness

import (
	"bufio"
	"bytes"
	"fmt"
	"io"
	"net/http"
	"strings"

	netty "github.com/go-netty/go-netty"
	"github.com/go-netty/go-netty/codec/xhttp"
	"github.com/go-netty/go-netty/verifsim/simnet"
	"github.com/go-netty/go-netty/verifsim/simrt"
)

func init() { Register(&PropDef{ID: "C15", Run: runC15}) }

type httpReq struct {
	ID       int
	Method   string
	Target   string
	Proto10  bool
	ConnHdr  string // "", "close", "keep-alive"
	BodyMode int    // 0 none, 1 content-length, 2 chunked
	Body     []byte
	Wire     []byte
	AsksClose bool
	// handler program
	ReadBody int // 0 none, 1 half, 2 all
	RespMode int // 0 explicit Content-Length, 1 chunked, 2 neither
	Status   int
	Writes   [][]byte
	Flush    int // 0 never, 1 after the first write, 2 at the end
	Copy     bool // body written with io.Copy from a plain reader (no WriteTo) instead of Write
	LateRead bool // the handler reads the request body after it has produced its response
}

type httpSeen struct {
	ID     string
	Method string
	Target string
	Proto  string
	Body   []byte
	Panic  interface{}
}

type httpLog struct {
	Seen []*httpSeen
}

//go:norace
func (l *httpLog) add(s *httpSeen) { l.Seen = append(l.Seen, s) }

var httpWriteSizes = []int{10, 0, 1, 2047, 2048, 2049, 5000}

//go:norace
func drawHTTPReq(e *Env, id int) *httpReq {
	r := &httpReq{ID: id}
	r.Method = []string{"GET", "POST", "PUT"}[e.P(3)]
	r.Target = []string{"/", "/a/b?x=1&y=2", "/" + strings.Repeat("p", 300)}[e.P(3)]
	r.Proto10 = e.P(4) == 3
	r.ConnHdr = []string{"", "close", "keep-alive"}[e.PB(3, 0.3)]
	if r.Proto10 && e.P(2) == 1 {
		r.ConnHdr = "keep-alive" // an HTTP/1.0 client that keeps the connection: later requests are still served
	}
	if r.Method != "GET" {
		r.BodyMode = 1 + e.P(2)
		if r.Proto10 {
			r.BodyMode = 1
		}
		r.Body = fillPayload(id, []int{12, 0, 1, 700, 5000, 70000}[e.P(6)])
		for i := range r.Body {
			r.Body[i] = 'a' + r.Body[i]%26
		}
	}
	r.ReadBody = e.P(3)
	r.RespMode = e.P(3)
	if r.Proto10 && r.RespMode == 1 {
		r.RespMode = 0
	}
	r.Status = []int{200, 201, 404, 500}[e.P(4)]
	for i, n := 0, e.P(4); i < n; i++ {
		w := fillPayload(id*7+i, httpWriteSizes[e.P(len(httpWriteSizes))])
		for j := range w {
			w[j] = 'A' + w[j]%26
		}
		r.Writes = append(r.Writes, w)
	}
	r.Flush = e.PB(3, 0.35)
	r.Copy = e.P(5) == 4
	r.LateRead = e.P(4) == 3
	// wire form
	var b bytes.Buffer
	proto := "HTTP/1.1"
	if r.Proto10 {
		proto = "HTTP/1.0"
	}
	fmt.Fprintf(&b, "%s %s %s\r\nHost: example.test\r\nX-Id: %d\r\n", r.Method, r.Target, proto, id)
	if r.ConnHdr != "" {
		fmt.Fprintf(&b, "Connection: %s\r\n", r.ConnHdr)
	}
	switch r.BodyMode {
	case 1:
		fmt.Fprintf(&b, "Content-Length: %d\r\n\r\n", len(r.Body))
		b.Write(r.Body)
	case 2:
		b.WriteString("Transfer-Encoding: chunked\r\n\r\n")
		rest := r.Body
		for len(rest) > 0 {
			k := len(rest)
			if k > 1000 {
				k = 1000
			}
			fmt.Fprintf(&b, "%x\r\n", k)
			b.Write(rest[:k])
			b.WriteString("\r\n")
			rest = rest[k:]
		}
		b.WriteString("0\r\n\r\n")
	default:
		b.WriteString("\r\n")
	}
	r.Wire = b.Bytes()
	r.AsksClose = r.ConnHdr == "close" || (r.Proto10 && r.ConnHdr != "keep-alive")
	return r
}

func (r *httpReq) respBody() []byte {
	var out []byte
	for _, w := range r.Writes {
		out = append(out, w...)
	}
	return out
}

func (r *httpReq) String() string {
	proto := "1.1"
	if r.Proto10 {
		proto = "1.0"
	}
	var ws []int
	for _, w := range r.Writes {
		ws = append(ws, len(w))
	}
	return fmt.Sprintf("#%d %s %s HTTP/%s conn=%q body-mode=%d(%d bytes) | handler: read-body=%d resp-mode=%d(0 CL,1 chunked,2 neither) status=%d writes=%v flush=%d io.Copy=%v read-body-after-responding=%v", r.ID, r.Method, clipS(r.Target, 20), proto, r.ConnHdr, r.BodyMode, len(r.Body), r.ReadBody, r.RespMode, r.Status, ws, r.Flush, r.Copy, r.LateRead)
}

//go:norace
func runC15(e *Env) {
	cc := e.drawChan(true, []int{8, 2, 64})
	if cc.Async {
		// In non-blocking queue mode a full queue legitimately refuses part of a response (C18); the property
		// speaks about what the codec emits, not about a transport that rejects writes.
		cc.Until = true
	}
	n := 1 + e.P(5)
	var reqs []*httpReq
	for i := 0; i < n; i++ {
		reqs = append(reqs, drawHTTPReq(e, i))
	}
	pipelined := e.P(2) == 0
	e.Describe("channel=%s requests=%d pipelined=%v", cc, n, pipelined)
	for _, r := range reqs {
		e.Describe("%s", r)
	}
	log := &httpLog{}
	handler := http.HandlerFunc(func(w http.ResponseWriter, hr *http.Request) {
		seen := &httpSeen{ID: hr.Header.Get("X-Id"), Method: hr.Method, Target: hr.URL.RequestURI(), Proto: hr.Proto}
		log.add(seen)
		var id int
		fmt.Sscanf(seen.ID, "%d", &id)
		if id < 0 || id >= len(reqs) || seen.ID == "" {
			return
		}
		r := reqs[id]
		readBody := func() {
			switch r.ReadBody {
			case 1:
				buf := make([]byte, len(r.Body)/2)
				k, _ := io.ReadFull(hr.Body, buf)
				seen.Body = buf[:k]
			case 2:
				seen.Body, _ = io.ReadAll(hr.Body)
			}
		}
		if !r.LateRead {
			readBody()
		} else {
			defer readBody() // respond first, read the request body afterwards
		}
		w.Header().Set("X-Resp", seen.ID)
		switch r.RespMode {
		case 0:
			w.Header().Set("Content-Length", fmt.Sprint(len(r.respBody())))
		case 1:
			w.Header().Set("Transfer-Encoding", "chunked")
		}
		if r.Status != 200 || len(r.Writes) == 0 {
			w.WriteHeader(r.Status)
		}
		for i, b := range r.Writes {
			if r.Copy {
				io.Copy(w, &fragReader{b: append([]byte(nil), b...), plan: []int{3, 100}})
			} else {
				w.Write(b)
			}
			if i == 0 && r.Flush == 1 {
				w.(http.Flusher).Flush()
			}
		}
		if r.Flush == 2 {
			w.(http.Flusher).Flush()
		}
	})
	rig := e.NewRig(cc, false)
	pl := netty.NewPipeline()
	pl.AddLast(xhttp.ServerCodec(), xhttp.Handler(handler))
	ch := cc.Factory()(1, rig.Ctx, pl, rig.Conn, rig.X)
	rig.Conn.Frag = e.P(4)
	e.Go("main", func() {
		pl.ServeChannel(ch)
		e.Go("peer", func() {
			for i, r := range reqs {
				rest := r.Wire
				for len(rest) > 0 {
					e.Step()
					k := len(rest)
					if e.P(3) == 2 {
						k = 1 + e.P(len(rest))
					}
					rig.Conn.Feed(rest[:k])
					rest = rest[k:]
				}
				if !pipelined {
					// wait (bounded) until some response bytes for this request showed up or the server closed
					for w := 0; w < 60 && !rig.Conn.Closed && countResponses(rig.Conn.Wire) <= i; w++ {
						e.Step()
					}
				}
			}
		})
	})
	end := e.RunToEnd()
	// ---- oracle ----
	// which requests must be served: up to and including the first one after which the connection closes
	served := 0
	mustClose := false
	for _, r := range reqs {
		served++
		if r.AsksClose || r.RespMode == 2 {
			mustClose = true
			break
		}
	}
	cls := func(r *httpReq) string {
		return fmt.Sprintf("resp-mode=%d,flush=%d", r.RespMode, r.Flush)
	}
	for _, t := range e.EscapedPanics() {
		_ = t
	}
	// handler invocations
	for i := 0; i < served; i++ {
		r := reqs[i]
		if i >= len(log.Seen) {
			e.Violate("handler-once-per-request", "missing,"+prevClass(reqs, i), "request %d (%s %s) never reached the handler (%d invocations for %d requests to be served)", i, r.Method, clipS(r.Target, 20), len(log.Seen), served)
			break
		}
		s := log.Seen[i]
		if s.ID != fmt.Sprint(r.ID) || s.Method != r.Method || s.Target != r.Target {
			e.Violate("handler-once-per-request", "wrong-request,"+prevClass(reqs, i), "handler invocation %d saw %s %s (X-Id %q) instead of request %d (%s %s)", i, s.Method, clipS(s.Target, 30), s.ID, i, r.Method, clipS(r.Target, 30))
			break
		}
		if r.ReadBody == 1 && !bytes.Equal(s.Body, r.Body[:len(r.Body)/2]) {
			e.Violate("handler-once-per-request", "wrong-body", "handler asked for the first %d body bytes of request %d and got %d bytes that differ from the request's own body", len(r.Body)/2, i, len(s.Body))
		}
		if r.ReadBody == 2 && !bytes.Equal(s.Body, r.Body) {
			e.Violate("handler-once-per-request", "wrong-body", "handler read %d body bytes for request %d instead of its %d-byte body", len(s.Body), i, len(r.Body))
		}
	}
	if len(log.Seen) > served && len(e.Viol) == 0 {
		s := log.Seen[served]
		e.Violate("handler-once-per-request", "extra-invocation", "handler invoked %d times for %d requests to be served; extra invocation saw %s %s (X-Id %q)", len(log.Seen), served, s.Method, clipS(s.Target, 30), s.ID)
	}
	// responses as a standard parser reads them back
	if len(e.Viol) == 0 {
		br := bufio.NewReader(bytes.NewReader(rig.Conn.Wire))
		for i := 0; i < served; i++ {
			r := reqs[i]
			resp, err := http.ReadResponse(br, &http.Request{Method: r.Method})
			if err != nil {
				e.Violate("one-response-per-request", "unparsable,"+cls(r), "response %d of %d cannot be parsed by net/http: %v (request %s)", i, served, err, r)
				break
			}
			body, berr := io.ReadAll(resp.Body)
			if berr != nil {
				e.Violate("one-response-per-request", "body-unreadable,"+cls(r), "body of response %d cannot be read: %v (request %s)", i, berr, r)
				break
			}
			if resp.StatusCode != r.Status || resp.Header.Get("X-Resp") != fmt.Sprint(r.ID) {
				e.Violate("one-response-per-request", "wrong-response,"+cls(r), "response %d has status %d / X-Resp %q, expected %d / %q", i, resp.StatusCode, resp.Header.Get("X-Resp"), r.Status, fmt.Sprint(r.ID))
				break
			}
			if !bytes.Equal(body, r.respBody()) {
				e.Violate("one-response-per-request", "wrong-body,"+cls(r), "response %d carries a %d-byte body, the handler wrote %d bytes (first difference at %d)", i, len(body), len(r.respBody()), firstDiff(body, r.respBody()))
				break
			}
		}
		if len(e.Viol) == 0 {
			if rest, _ := io.ReadAll(br); len(rest) > 0 {
				e.Violate("one-response-per-request", "extra-bytes", "%d bytes follow the last expected response: %q", len(rest), clip(rest, 40))
			}
		}
	}
	// connection handling
	quiet := end == simrt.EndQuiescent || end == simrt.EndAllDone
	if quiet && len(e.Viol) == 0 {
		if mustClose && !rig.Conn.Closed {
			e.Violate("close-decision", "left-open", "the connection must be closed after response %d (request asked to close or response is not self-delimiting) but it is still open", served-1)
		}
		if !mustClose && rig.Conn.Closed {
			e.Violate("close-decision", "closed-early", "every request was keep-alive and every response self-delimiting, yet the connection was closed")
		}
		if rig.Conn.Closed && rig.Conn.Unflushed > 0 {
			e.Violate("close-after-flush", "unflushed", "connection closed with %d response bytes not flushed", rig.Conn.Unflushed)
		}
	}
	e.Count("requests_served", len(log.Seen))
	if pipelined {
		e.Count("pipelined_runs", 1)
	}
	for _, r := range reqs[:served] {
		e.Count(fmt.Sprintf("resp_mode_%d", r.RespMode), 1)
		if r.Flush > 0 {
			e.Count("explicit_flush_programs", 1)
		}
		if r.BodyMode > 0 && r.ReadBody < 2 {
			e.Count("unread_request_bodies", 1)
		}
	}
	e.Count("short_reads_fired", rig.Conn.Fired.ShortReads)
	e.Go("teardown", func() { ch.Close(fmt.Errorf("teardown")) })
	e.Sim.Run()
}

// prevClass describes the request preceding request i (its unread body is what usually breaks request i).
//
//go:norace
func prevClass(reqs []*httpReq, i int) string {
	if i == 0 {
		return "first"
	}
	p := reqs[i-1]
	return fmt.Sprintf("after(body-mode=%d,read-body=%d,flush=%d)", p.BodyMode, p.ReadBody, p.Flush)
}

//go:norace
func countResponses(wire []byte) int { return bytes.Count(wire, []byte("HTTP/1.")) }

var _ = simnet.FragWhole
