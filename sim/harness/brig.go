package harness

import (
	"fmt"

	netty "github.com/go-netty/go-netty"
	"github.com/go-netty/go-netty/verifsim/simnet"
)

// BRig is a real Bootstrap over the simulated transport factory.
type BRig struct {
	Env    *Env
	F      *simnet.Factory
	BS     netty.Bootstrap
	X      *Executor
	Holder netty.ChannelHolder
	Probes []*Probe // one per channel, in creation order
	Chans  []netty.Channel
}

// NewBRig builds a bootstrap whose channels get the pipeline (mk(channel)..., probe).
//
//go:norace
func (e *Env) NewBRig(cc ChanCfg, holder bool, execDelay bool, mk func(ch netty.Channel, p *Probe) []netty.Handler) *BRig {
	r := &BRig{Env: e}
	r.F = simnet.NewFactory(e.Sim)
	r.X = e.NewExecutor(execDelay)
	init := func(ch netty.Channel) {
		p := &Probe{env: e, Name: fmt.Sprintf("probe%d", len(r.Probes)), ReadTransport: true}
		r.addChan(ch, p)
		if mk != nil {
			for _, h := range mk(ch, p) {
				ch.Pipeline().AddLast(h)
			}
		}
		ch.Pipeline().AddLast(p)
	}
	opts := []netty.Option{
		netty.WithTransport(r.F), netty.WithExecutor(r.X), netty.WithChannel(cc.Factory()),
		netty.WithChildInitializer(init), netty.WithClientInitializer(init),
	}
	if holder {
		r.Holder = netty.NewChannelHolder(4)
		opts = append(opts, netty.WithChannelHolder(r.Holder))
	} else {
		opts = append(opts, netty.WithChannelHolder(nil))
	}
	r.BS = netty.NewBootstrap(opts...)
	return r
}

//go:norace
func (r *BRig) addChan(ch netty.Channel, p *Probe) {
	r.Probes = append(r.Probes, p)
	r.Chans = append(r.Chans, ch)
}
