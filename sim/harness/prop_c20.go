package harness

import (
	"io"
	"errors"
	"time"

	netty "github.com/go-netty/go-netty"
	"github.com/go-netty/go-netty/verifsim/simrt"
)

func init() {
	Register(&PropDef{ID: "C20", Run: runC20})
	c12Families = append(c12Families, runC20)
}

var idleTimes = []time.Duration{time.Second, 1500 * time.Millisecond, 3 * time.Second}

// gaps are expressed relative to the idle time d: just before / exactly at / just after expiry, bursts, silence.
//
//go:norace
func drawGap(e *Env, d time.Duration) time.Duration {
	switch e.P(8) {
	case 0:
		return d / 2
	case 1:
		return d - time.Millisecond
	case 2:
		return d
	case 3:
		return d + time.Millisecond
	case 4:
		return 10 * time.Millisecond
	case 5:
		return 0
	case 6:
		return 2*d + d/2
	}
	return 3*d + 7*time.Millisecond
}

//go:norace
func runC20(e *Env) {
	cc := e.drawChan(true, []int{2, 8})
	d := idleTimes[e.P(len(idleTimes))]
	if e.P(4) == 3 {
		d = time.Duration(1000+e.P(4001)) * time.Millisecond // idle times between the usual ones
	}
	which := e.P(3) // 0 read-idle, 1 write-idle, 2 both
	panicAt := 0
	if e.P(4) == 3 {
		panicAt = 1 + e.P(3)
	}
	swallow := e.P(2) == 0
	e.Sim.StallOK = e.P(4) == 3
	closeInActive := e.P(10) == 9 // a handler behind the idle handlers closes the channel while handling the active event
	slowAt := 0                  // the event handler spends 1.5 idle periods inside the k-th idle event
	if panicAt == 0 && !closeInActive && e.P(6) == 5 {
		slowAt = 1 + e.P(2)
	}
	nIn, nOut := e.P(5), e.P(5)
	e.Sim.TimeSensitive()

	pre := &Probe{env: e, Name: "pre", Outbound: true}
	var hs []netty.Handler
	hs = append(hs, pre)
	if which == 0 || which == 2 {
		hs = append(hs, netty.ReadIdleHandler(d))
	}
	if which == 1 || which == 2 {
		hs = append(hs, netty.WriteIdleHandler(d))
	}
	rig := e.NewRig(cc, false, hs...)
	post := rig.Probe
	post.Outbound = true
	post.Swallow = swallow
	nEvents := 0
	// some inbound messages make the handler behind the idle handler fail (after it has read the data); with the
	// exception consumed the channel stays open and the timers must go on. Such a message is NOT bound by the
	// full-idle-period clause: the handler accounts for a message when its HandleRead returns, which a failing
	// downstream handler prevents, exactly as a failed transport read does ("passed the handler" = came back through it)
	badReads := make([]bool, nIn)
	for i := range badReads {
		badReads[i] = swallow && e.P(4) == 3
	}
	nReads := 0
	post.OnRead = func(ctx netty.InboundContext, msg netty.Message) bool {
		k := nReads
		nReads++
		if k < len(badReads) && badReads[k] {
			if r, ok := msg.(io.Reader); ok {
				buf := make([]byte, 64)
				if _, err := r.Read(buf); err != nil {
					panic(err) // transport failure, not the handler's
				}
				panic(errors.New("inbound handler failed on this message"))
			}
		}
		return false
	}
	if closeInActive {
		post.OnActive = func(ctx netty.ActiveContext) { ctx.Close(errSentinel) }
	}
	post.OnEvent = func(ctx netty.EventContext, ev netty.Event) {
		nEvents++
		if nEvents == slowAt {
			simrt.Sleep(SiteDelay, d+d/2)
		}
		if nEvents == panicAt {
			if e.P(2) == 0 {
				panic("idle event handler panic (string)")
			}
			panic(errors.New("idle event handler panic (error)"))
		}
	}
	inGaps := make([]time.Duration, nIn)
	for i := range inGaps {
		inGaps[i] = drawGap(e, d)
	}
	outGaps := make([]time.Duration, nOut)
	badWrites := make([]bool, nOut)
	for i := range outGaps {
		outGaps[i] = drawGap(e, d)
		badWrites[i] = e.P(4) == 3
	}
	tail := drawGap(e, d) + d/4
	if slowAt > 0 {
		tail += 8 * d // enough silence after the slow handler call to see whether events keep coming
	}
	if e.P(2) == 1 {
		// aim the Close at the very instant a timer fires: k idle periods after the last message
		var tin, tout time.Duration
		for _, g := range inGaps {
			tin += g
		}
		for _, g := range outGaps {
			tout += g
		}
		last, base := tin, tin
		if tout > last {
			last = tout
		}
		if which == 1 {
			base = tout
		}
		if target := base + time.Duration(1+e.P(3))*d; target > last {
			tail = target - last
		}
	}
	e.Describe("channel=%s idle=%v handlers=%d(0 read,1 write,2 both) inbound-gaps=%v outbound-gaps=%v silence-before-close=%v panic-at-event=%d swallow-exceptions=%v stalls=%v close-inside-active=%v slow-event-handler-at=%d failing-inbound-handler-at=%v",
		cc, d, which, inGaps, outGaps, tail, panicAt, swallow, e.Sim.StallOK, closeInActive, slowAt, badReads)
	var closeInvAt, closeRetAt time.Duration
	var closeInv int64
	closed := false
	pending := 2
	finish := func() {
		if decr(&pending) > 0 {
			return
		}
		e.Go("closer", func() {
			simrt.Sleep(SiteDelay, tail)
			closeInv, closeInvAt = e.Sim.NextEv(), e.Sim.Now()
			closed = true
			rig.Ch.Close(errSentinel)
			closeRetAt = e.Sim.Now()
			e.Sim.Horizon = e.Sim.Now() + 30*d
		})
	}
	e.Go("main", func() {
		rig.Serve()
		e.Go("peer", func() {
			for _, g := range inGaps {
				if g > 0 {
					simrt.Sleep(SiteDelay, g)
				} else {
					e.Step()
				}
				rig.Conn.Feed([]byte{1, 2, 3})
			}
			finish()
		})
		e.Go("writer", func() {
			for i, g := range outGaps {
				if g > 0 {
					simrt.Sleep(SiteDelay, g)
				} else {
					e.Step()
				}
				if swallow && badWrites[i] {
					rig.Ch.Write(unsupportedMsg{i}) // fails at the head (exception, consumed): the write still passed the idle handler
				} else {
					rig.Ch.Write([]byte{byte(i + 1), 7, 7})
				}
			}
			finish()
		})
	})
	e.Sim.Horizon = 200 * d
	end := e.RunToEnd()

	// ---- oracle ----
	evs := post.Of("event")
	tasks := e.Sim.Tasks()
	firedAt := func(dl *Delivery) (time.Duration, bool) {
		if dl.Task >= 0 && dl.Task < len(tasks) && tasks[dl.Task].IsTimer {
			return tasks[dl.Task].FiredAt, true
		}
		return 0, false
	}
	var activeAt time.Duration = -1
	if a := pre.Of("active"); len(a) == 1 {
		activeAt = a[0].At
	}
	inact := pre.Of("inactive")
	var inactiveEnd int64
	if in := post.Of("inactive"); len(in) > 0 {
		inactiveEnd = in[0].End
	}
	afterInactive := 0
	for _, ev := range evs {
		var passes []*Delivery // deliveries that passed the idle handler, with a lower bound of the recorded time
		kind := ""
		switch ev.Msg.(type) {
		case netty.ReadIdleEvent:
			kind = "read"
			passes = post.Of("read") // the handler stamps after the downstream handler returned: EndAt is a lower bound
		case netty.WriteIdleEvent:
			kind = "write"
			passes = post.Of("write") // the handler stamps before forwarding: post (tail side) entered earlier
		default:
			continue
		}
		e.Count("idle_events_"+kind, 1)
		fa, isTimer := firedAt(ev)
		if !isTimer {
			continue
		}
		if activeAt >= 0 && ev.At-activeAt < d {
			e.Violate("full-idle-period", kind+"-idle,since-activation", "%s-idle event at t=%v although activation was at t=%v (idle time %v)", kind, ev.At, activeAt, d)
		}
		preReads := pre.Of("read")
		for i, ps := range passes {
			// The handler's own time stamp U is not observable; probes on both sides bound it:
			//   read : downstream (post) returned <= U <= upstream (pre) returned
			//   write: upstream (post) entered    <= U <= upstream (post) returned
			var lower, upper time.Duration
			if kind == "write" {
				lower, upper = ps.At, ps.EndAt
				if ps.End == 0 {
					continue
				}
			} else {
				if ps.End == 0 || ps.Err != nil || i >= len(preReads) || preReads[i].End == 0 || (i < len(badReads) && badReads[i]) {
					continue // still blocked in the transport, failed, or not yet back through the handler
				}
				lower, upper = ps.EndAt, preReads[i].EndAt
			}
			// only messages that certainly passed (were stamped) before the timer fired - or, the timer having fired,
			// before its callback began to run: the callback reads the stamp under the handler's lock - bind the callback
			var upperSeq int64
			if kind == "write" {
				upperSeq = ps.End
			} else {
				upperSeq = preReads[i].End
			}
			beforeCallback := ev.Task >= 0 && ev.Task < len(tasks) && tasks[ev.Task].StartEv > 0 && upperSeq <= tasks[ev.Task].StartEv
			if (upper < fa || beforeCallback) && ev.At-lower < d {
				e.Violate("full-idle-period", kind+"-idle,since-last-message", "%s-idle event at t=%v although a %s passed the handler at t=%v..%v, before the timer callback (fired t=%v) began to run; idle time %v", kind, ev.At, kind, lower, upper, fa, d)
			}
		}
		if inactiveEnd != 0 && ev.Seq > inactiveEnd {
			afterInactive++
		}
	}
	// once the inactive event has passed the handlers no idle period is timed any more: a timer callback that FIRES
	// after that instant (it was not already in flight) means a timer was still armed
	if in := post.Of("inactive"); len(in) > 0 && in[0].End != 0 {
		for _, t := range tasks {
			if t.IsTimer && t.FiredAt > in[0].EndAt {
				e.Violate("timer-released", "timer-fired-after-inactive", "an idle timer fired at t=%v, after the inactive event had passed the handlers at t=%v: an idle period was still being timed", t.FiredAt, in[0].EndAt)
				break
			}
		}
	}
	if afterInactive > 2 || (which != 2 && afterInactive > 1) {
		e.Violate("none-after-inactive", "idle-events-after-inactive", "%d idle events delivered after the inactive event had passed the handler(s)", afterInactive)
	}
	if closed && end == simrt.EndHorizon {
		// The run was cut by the fake-time horizon. That is a leaked timer only if timer callbacks still fire well
		// after the inactive event has passed the handlers (the property's own condition). If inactive has not been
		// delivered yet - the closing task can be starved for a long fake time by stall decisions - the run is
		// inconclusive, not a violation.
		late := 0
		if in := post.Of("inactive"); len(in) > 0 && in[0].End != 0 {
			for _, t := range tasks {
				if t.IsTimer && t.FiredAt > in[0].EndAt+3*d {
					late++
				}
			}
		}
		if late >= 2 {
			e.Inconclusive = ""
			e.Violate("timer-released", "timer-live-after-inactive", "%d timer callbacks fired more than 3 idle periods after the inactive event had passed the handlers: the idle timer was not released", late)
		}
	}
	// liveness: during the final silence (no stalls, no panic, channel open) events keep coming
	closedEarly := false
	if in := pre.Of("inactive"); len(in) > 0 && in[0].Seq < closeInv {
		closedEarly = true // e.g. a full non-blocking queue made the head handler raise an exception that closed the channel
		e.Count("channel_closed_before_planned_close", 1)
	}
	if !e.Sim.StallOK && panicAt == 0 && closed && e.Sim.Forced == 0 && !closedEarly {
		for _, kind := range []string{"read", "write"} {
			if (kind == "read" && which == 1) || (kind == "write" && which == 0) {
				continue
			}
			last := activeAt
			var passes []*Delivery
			if kind == "read" {
				passes = post.Of("read")
			} else {
				passes = post.Of("write")
			}
			for _, ps := range passes {
				t := ps.EndAt
				if kind == "read" && (ps.End == 0 || ps.Err != nil) {
					continue // the read that is still blocked in the transport / failed
				}
				if t > last {
					last = t
				}
			}
			silence := closeInvAt - last
			want := int(silence/d) - 1
			if slowAt > 0 {
				want -= 4 // one call of 1.5 periods delays the re-arm; both handlers may be slowed once each
			}
			got := 0
			for _, ev := range evs {
				_, isR := ev.Msg.(netty.ReadIdleEvent)
				if (kind == "read") == isR && ev.At >= last && ev.At <= closeInvAt {
					got++
				}
			}
			if want > 0 && got < want {
				e.Violate("keeps-firing", kind+"-idle", "only %d %s-idle events during %v of silence before Close (idle time %v, expected at least %d)", got, kind, silence, d, want)
			}
			if want > 0 {
				e.Count("liveness_windows_checked", 1)
			}
		}
	}
	if panicAt > 0 && nEvents >= panicAt {
		e.Count("event_handler_panics_injected", 1)
		if post.Count("exception") == 0 {
			e.Violate("panic-routed", "no-exception", "the event handler panicked on idle event %d but no exception was delivered", panicAt)
		}
	}
	_ = inact
	_ = closeInv
	_ = closeRetAt
	e.Count("timer_callbacks_run", countTimers(tasks))
	rig.Teardown()
}

//go:norace
func countTimers(ts []*simrt.Task) int {
	n := 0
	for _, t := range ts {
		if t.IsTimer {
			n++
		}
	}
	return n
}
