package harness

import (
	"errors"
	"fmt"
	"io"
	"time"

	netty "github.com/go-netty/go-netty"
	"github.com/go-netty/go-netty/verifsim/simnet"
	"github.com/go-netty/go-netty/verifsim/simrt"
)

func init() { Register(&PropDef{ID: "C07", Run: runC07}) }

// fault-plan dimensions
const (
	evActive = iota
	evRead
	evWrite
	evEvent
)

var evNames = []string{"active", "read", "write", "event"}

const (
	enReadLoop = iota
	enChWrite
	enChTrigger
	enCtxWrite
	enCtxTrigger
	enIdleTimer
	nEntriesC07
)

var enNames = []string{"read-loop", "Channel.Write", "Channel.Trigger", "ctx.Write", "ctx.Trigger", "idle-timer"}

const (
	pvError = iota
	pvString
	pvRuntime
	pvNetTimeout
	pvNetError
	nPanicKinds
)

var pvNames = []string{"error", "string", "runtime-error", "timeout-net.Error", "non-timeout-net.Error"}

const (
	xpForward = iota
	xpSwallow
	xpClose
)

var xpNames = []string{"forward", "swallow", "close"}

type faultEvent struct{}
type faultEvent2 struct{}

//go:norace
func makePanicValue(kind int) (val interface{}, raise func()) {
	switch kind {
	case pvError:
		err := errors.New("injected handler error")
		return err, func() { panic(err) }
	case pvString:
		return "injected string panic", func() { panic("injected string panic") }
	case pvRuntime:
		return nil, func() {
			var m map[string]int
			m["x"] = 1 // runtime error: assignment to entry in nil map
		}
	case pvNetTimeout:
		return simnet.ErrTimeout, func() { panic(simnet.ErrTimeout) }
	default:
		return simnet.ErrReset, func() { panic(simnet.ErrReset) }
	}
}

type c07Plan struct {
	Handlers int
	Policy   []int
	Pos      int // handler that panics
	Ev       int
	Entry    int
	PKind    int
	State    int // 0 open, 1 closing (concurrent closer), 2 closed
	Chan     ChanCfg
}

// entry points that can reach an event kind
//
//go:norace
func entriesFor(ev int) []int {
	switch ev {
	case evActive, evRead:
		return []int{enReadLoop}
	case evWrite:
		return []int{enChWrite, enCtxWrite}
	}
	return []int{enChTrigger, enCtxTrigger, enIdleTimer}
}

//go:norace
func runC07(e *Env) {
	switch e.P(4) {
	case 2:
		runC07Transport(e)
		return
	case 3:
		if e.P(3) == 2 {
			runC07Reader(e)
		} else {
			runC07Burst(e)
		}
		return
	}
	var pl c07Plan
	pl.Chan = e.drawChan(true, []int{2, 8})
	pl.Handlers = 1 + e.P(4)
	for i := 0; i < pl.Handlers; i++ {
		pl.Policy = append(pl.Policy, e.P(3))
	}
	pl.Pos = e.P(pl.Handlers)
	pl.Ev = e.P(4)
	ents := entriesFor(pl.Ev)
	pl.Entry = ents[e.P(len(ents))]
	pl.PKind = e.P(nPanicKinds)
	pl.State = e.PB(3, 0.3)
	pol := make([]string, len(pl.Policy))
	for i, p := range pl.Policy {
		pol[i] = xpNames[p]
	}
	e.Describe("channel=%s handlers=%d exception-policies=%v panic: handler %d on %s via %s value=%s channel-state=%d(0 open,1 closing,2 closed)",
		pl.Chan, pl.Handlers, pol, pl.Pos, evNames[pl.Ev], enNames[pl.Entry], pvNames[pl.PKind], pl.State)
	e.Count("point:"+evNames[pl.Ev]+"/"+enNames[pl.Entry]+"/"+pvNames[pl.PKind], 1)

	val, raise := makePanicValue(pl.PKind)
	armed := true
	var fired int64
	var gotVal interface{}
	fire := func() {
		if armed {
			armed = false
			fired = e.Sim.NextEv()
			defer func() {
				// remember the very value that was raised (needed for runtime errors), then re-panic
				r := recover()
				gotVal = r
				panic(r)
			}()
			raise()
		}
	}
	// optional second, concurrent fault (only when the policies keep the channel open): a user event raised from
	// another task panics in handler pos2 with its own error value; it must be routed like the first one.
	firstStop := -1
	for i, p := range pl.Policy {
		if p != xpForward {
			firstStop = i
			break
		}
	}
	second := pl.State == 0 && firstStop >= 0 && pl.Policy[firstStop] == xpSwallow && pl.PKind != pvNetError && e.P(2) == 1
	pos2 := 0
	if second {
		pos2 = e.P(pl.Handlers)
	}
	err2 := errors.New("second injected handler error")
	armed2 := second
	var fired2 int64
	probes := make([]*Probe, pl.Handlers)
	var hs []netty.Handler
	if pl.Entry == enIdleTimer {
		e.Sim.TimeSensitive()
		hs = append(hs, netty.ReadIdleHandler(time.Second))
	}
	for i := range probes {
		i := i
		p := &Probe{env: e, Name: fmt.Sprintf("h%d", i), Outbound: true}
		switch pl.Policy[i] {
		case xpSwallow:
			p.Swallow = true
		case xpClose:
			p.CloseOnEx = true
		}
		if i == pl.Pos {
			switch pl.Ev {
			case evActive:
				p.OnActive = func(ctx netty.ActiveContext) { fire() }
			case evRead:
				p.OnRead = func(ctx netty.InboundContext, msg netty.Message) bool { fire(); return false }
			case evWrite:
				p.OnWrite = func(ctx netty.OutboundContext, msg netty.Message) bool { fire(); return false }
			case evEvent:
				p.OnEvent = func(ctx netty.EventContext, ev netty.Event) {
					switch ev.(type) {
					case faultEvent, netty.ReadIdleEvent:
						fire()
					}
				}
			}
		}
		if second && i == pos2 {
			prev := p.OnEvent
			p.OnEvent = func(ctx netty.EventContext, ev netty.Event) {
				if _, ok := ev.(faultEvent2); ok && armed2 {
					armed2 = false
					fired2 = e.Sim.NextEv()
					panic(err2)
				}
				if prev != nil {
					prev(ctx, ev)
				}
			}
		}
		probes[i] = p
		hs = append(hs, p)
	}
	rig := e.NewRig(pl.Chan, false, hs...)
	last := rig.Probe // reads the transport
	var escaped interface{}
	call := func(f func()) {
		defer func() {
			if r := recover(); r != nil {
				escaped = r
			}
		}()
		f()
	}
	e.Go("main", func() {
		rig.Serve()
		if pl.State == 2 {
			rig.Ch.Close(errSentinel)
		}
		if pl.State == 1 {
			e.Go("closer", func() { e.Step(); rig.Ch.Close(errSentinel) })
		}
		if second {
			e.Go("second-fault", func() {
				e.Step()
				call(func() { rig.Ch.Trigger(faultEvent2{}) })
			})
		}
		idxOf := func(p *Probe) int { return rig.Pl.IndexOf(func(h netty.Handler) bool { return h == netty.Handler(p) }) }
		switch pl.Entry {
		case enChWrite:
			e.Step()
			call(func() { rig.Ch.Write([]byte{1, 2, 3}) })
		case enChTrigger:
			e.Step()
			call(func() { rig.Ch.Trigger(faultEvent{}) })
		case enCtxWrite:
			e.Step()
			// a context on the tail side of the panicking handler
			from := idxOf(probes[pl.Pos]) + 1 + e.P(rig.Pl.Size()-1-idxOf(probes[pl.Pos]))
			call(func() { rig.Pl.ContextAt(from).Write([]byte{1, 2, 3}) })
		case enCtxTrigger:
			e.Step()
			from := e.P(idxOf(probes[pl.Pos]))
			call(func() { rig.Pl.ContextAt(from).Trigger(faultEvent{}) })
		}
	})
	e.Sim.Horizon = time.Minute
	end := e.RunToEnd()
	if end == simrt.EndHorizon {
		// the read-idle timer keeps the run alive; that is expected for the idle-timer entry
		e.Inconclusive = ""
	}
	// ---- oracle ----
	if escaped != nil {
		e.Violate("no-escape", enNames[pl.Entry], "a panic escaped into the caller of %s: %v", enNames[pl.Entry], escaped)
	}
	if fired == 0 {
		e.Count("fault_plan_not_reached", 1)
	} else {
		e.Count("handler_panics_fired", 1)
	}
	if pl.State == 0 && fired != 0 {
		// expected exception value
		matches := func(got error) bool {
			if gotVal == nil {
				return false
			}
			if ev, ok := gotVal.(error); ok {
				return got == ev
			}
			return got != nil && got.Error() == fmt.Sprintf("%v", gotVal)
		}
		_ = val
		stop := -1 // index of the consuming handler
		for i, p := range probes {
			n := 0
			for _, d := range p.Of("exception") {
				if matches(d.Err) {
					n++
				}
			}
			want := 0
			if stop < 0 {
				want = 1
			}
			if n != want {
				e.Violate("routed-once-in-order", fmt.Sprintf("%s/%s", evNames[pl.Ev], enNames[pl.Entry]), "exception handler %d of %d saw the exception %d times, expected %d (policies %v, panic in handler %d on %s via %s, value %s)",
					i, len(probes), n, want, pol, pl.Pos, evNames[pl.Ev], enNames[pl.Entry], pvNames[pl.PKind])
			}
			if stop < 0 && pl.Policy[i] != xpForward {
				stop = i
			}
		}
		if second && fired2 != 0 {
			e.Count("second_concurrent_fault_fired", 1)
			for i, p := range probes {
				n := 0
				for _, d := range p.Of("exception") {
					if d.Err == err2 {
						n++
					}
				}
				want := 0
				if i <= firstStop {
					want = 1
				}
				if n != want {
					e.Violate("routed-once-in-order", "second-concurrent-fault", "a second panic raised from another task while the first exception was being handled: exception handler %d saw it %d times, expected %d (policies %v)", i, n, want, pol)
				}
			}
		}
		// the last probe of the rig is the transport reader: it forwards exceptions to the tail
		consumed := stop >= 0 && pl.Policy[stop] == xpSwallow
		viaInvoke := pl.Entry == enReadLoop || pl.Entry == enChWrite || pl.Entry == enChTrigger
		netClose := pl.PKind == pvNetError && viaInvoke
		ina := last.Of("inactive")
		if !consumed {
			if len(ina) != 1 {
				e.Violate("unconsumed-closes", fmt.Sprintf("inactive=%d", len(ina)), "no handler consumed the exception, yet inactive was delivered %d times", len(ina))
			} else if !matches(ina[0].Err) {
				e.Violate("unconsumed-closes", "wrong-error", "channel closed with %q instead of the exception (%v)", errStr(ina[0].Err), gotVal)
			}
		} else if !netClose {
			if len(ina) != 0 || !rig.Ch.IsActive() {
				e.Violate("consumed-stays-open", pvNames[pl.PKind], "the exception was consumed by handler %d but the channel was closed (inactive=%d)", stop, len(ina))
			} else {
				c07RoundTrip(e, rig, last)
			}
		}
	}
	rig.Teardown()
}

// c07RoundTrip: the channel must still be usable (one outbound message reaches the transport, one inbound
// chunk reaches the reading handler).
//
//go:norace
func c07RoundTrip(e *Env, rig *Rig, last *Probe) {
	wire0 := len(rig.Conn.Wire)
	reads0 := len(last.Of("read"))
	readerDone := false
	e.Go("roundtrip", func() {
		rig.Ch.Write([]byte{0x77, 0x78})
		rig.Conn.Feed([]byte{0x55})
		// (wait until the first message left the queue: a full non-blocking queue may refuse the second one)
		// (the scheduler may keep picking this task for up to 200 consecutive steps before its fairness rule lets the
		// freshly submitted sender task run: wait well beyond that)
		for i := 0; i < 3000 && len(rig.Conn.Wire) < wire0+2; i++ {
			e.Step()
		}
		// a message that reaches the head as a plain io.Reader must still get through as well
		rig.Ch.Write(&fragReader{b: []byte{0x79, 0x7A, 0x7B}})
		readerDone = true
	})
	e.Sim.Horizon = e.Sim.Now() + time.Minute
	e.Sim.Run()
	if !readerDone {
		e.Violate("remains-usable", "reader-write-hangs", "after the consumed fault Channel.Write of an io.Reader message never returned although the channel is still active")
	} else if len(rig.Conn.Wire) != wire0+5 {
		e.Violate("remains-usable", "write", "after the consumed fault two writes (2 + 3 bytes) did not reach the transport (%d bytes instead of 5)", len(rig.Conn.Wire)-wire0)
	}
	got := false
	for _, d := range last.Of("read") {
		if len(d.Data) == 1 && d.Data[0] == 0x55 {
			got = true
		}
	}
	if reads0 > 0 && !got {
		e.Violate("remains-usable", "read", "after the consumed fault an inbound byte was not delivered to the reading handler")
	}
	e.Count("roundtrips_checked", 1)
}

// runC07Transport: Write/Writev/Flush/Read of the transport fail at the k-th call.
//
//go:norace
func runC07Transport(e *Env) {
	cc := e.drawChan(true, []int{2, 8})
	if cc.Async {
		// blocking mode: a full non-blocking queue would raise its own exception (queue full) and may close the
		// channel before the injected transport fault does, which is not what this plan is about
		cc.Until = true
	}
	what := e.P(3) // 0 write, 1 flush, 2 read
	k := 1 + e.P(3)
	swallow := e.P(2) == 1
	var ferr error
	netErr := false
	switch e.P(4) {
	case 0:
		ferr = errors.New("injected transport failure")
	case 1:
		ferr = simnet.ErrReset
		netErr = true
	case 2:
		ferr = io.ErrUnexpectedEOF
	default:
		ferr = simnet.ErrTimeout // a timeout-class net.Error (e.g. an expired write deadline)
	}
	once := false
	if !cc.Async && what != 2 {
		// synchronous writes: the failure is only reported to the writer. Sometimes behind the transport wrappers, and
		// sometimes a transient fault (only that call fails): consumed, it must leave a channel that works again
		cc = e.drawBuffered(cc)
		once = e.P(2) == 0
	}
	e.Describe("channel=%s transport fault: %s call #%d fails with %q (only that call: %v); exception handler swallows=%v", cc, []string{"Write/Writev", "Flush", "Read"}[what], k, ferr, once, swallow)
	e.Count("point:transport/"+[]string{"write", "flush", "read"}[what], 1)
	mid := &Probe{env: e, Name: "mid", Outbound: true, Swallow: swallow}
	rig := e.NewRig(cc, false, mid)
	last := rig.Probe
	switch what {
	case 0:
		rig.Conn.FailWriteAt, rig.Conn.FailWriteErr = k, ferr
	case 1:
		rig.Conn.FailFlushAt, rig.Conn.FailFlushErr = k, ferr
	}
	rig.Conn.FailOnce = once
	var escaped interface{}
	e.Go("main", func() {
		rig.Serve()
		defer func() {
			if r := recover(); r != nil {
				escaped = r
			}
		}()
		if what == 2 {
			for i := 0; i < k-1; i++ {
				rig.Conn.Feed([]byte{byte(i + 1)})
				e.Step()
			}
			rig.Conn.EndInput(ferr, true)
			return
		}
		for i := 0; i < k+1; i++ {
			e.Step()
			rig.Ch.Write([]byte{byte(i + 1), 0xAA})
		}
	})
	end := e.RunToEnd()
	_ = end
	if escaped != nil {
		e.Violate("no-escape", "transport-fault", "a panic escaped into the caller of Channel.Write: %v", escaped)
	}
	firedN := rig.Conn.Fired.WriteErrs + rig.Conn.Fired.FlushErrs + rig.Conn.Fired.EOFs + rig.Conn.Fired.Resets
	if firedN == 0 {
		e.Count("fault_plan_not_reached", 1)
		rig.Teardown()
		return
	}
	e.Count("transport_faults_fired", 1)
	ina := last.Of("inactive")
	senderFault := cc.Async && what != 2
	mustClose := senderFault || !swallow || netErr
	if mustClose {
		if len(ina) != 1 {
			e.Violate("failure-closes", fmt.Sprintf("%s,inactive=%d", []string{"write", "flush", "read"}[what], len(ina)), "transport %s failure (%q) should close the channel; inactive delivered %d times", []string{"write", "flush", "read"}[what], ferr, len(ina))
		} else if ina[0].Err != ferr && !errors.Is(ina[0].Err, ferr) {
			e.Violate("failure-closes", "wrong-error", "channel closed with %q instead of the transport error %q", errStr(ina[0].Err), ferr)
		}
	} else if len(ina) == 0 && rig.Ch.IsActive() && (what == 2 || once) {
		c07RoundTrip(e, rig, last)
	}
	rig.Teardown()
}

// runC07Burst: a burst of writes piles up behind a stalled sender so that full batches form, and one transport
// Writev or Flush call fails - once (transient) or from then on.
//
//go:norace
func runC07Burst(e *Env) {
	q := []int{8, 2, 4, 64, 16, 24}[e.P(6)]
	if e.P(4) == 3 {
		q = e.PRange(1, 40)
	}
	cc := ChanCfg{Async: true, Q: q, Until: true}
	what := e.P(2) // 0 write, 1 flush
	k := 1 + e.P(4)
	once := e.P(2) == 0
	var ferr error = errors.New("injected transient transport failure")
	if e.P(3) == 2 {
		ferr = simnet.ErrTimeout
	}
	writers := 1 + e.P(2)
	per := q/2 + 2 + e.P(3)
	e.Describe("channel=%s burst: %d writers x %d messages behind a stalled sender; transport %s call #%d fails (only that call: %v)", cc, writers, per, []string{"Writev", "Flush"}[what], k, once)
	e.Count("point:transport-burst/"+[]string{"write", "flush"}[what], 1)
	rig := e.NewRig(cc, false, &Probe{env: e, Name: "mid", Outbound: true, Swallow: e.P(2) == 1})
	last := rig.Probe
	rig.Conn.Stalled = true
	rig.Conn.FailOnce = once
	if what == 0 {
		rig.Conn.FailWriteAt, rig.Conn.FailWriteErr = k, ferr
	} else {
		rig.Conn.FailFlushAt, rig.Conn.FailFlushErr = k, ferr
	}
	e.Sim.TimeSensitive()
	e.Go("main", func() {
		rig.Serve()
		for w := 0; w < writers; w++ {
			w := w
			e.Go(fmt.Sprintf("writer%d", w), func() {
				for i := 0; i < per; i++ {
					e.Step()
					func() {
						defer func() { recover() }()
						rig.Ch.Write([]byte{byte(w*16 + i + 1), 0xBB})
					}()
				}
			})
		}
		e.Go("releaser", func() {
			simrt.Sleep(SiteDelay, time.Second)
			rig.Conn.Release()
		})
	})
	e.RunToEnd()
	if rig.Conn.Fired.WriteErrs+rig.Conn.Fired.FlushErrs == 0 {
		e.Count("fault_plan_not_reached", 1)
		rig.Teardown()
		return
	}
	e.Count("transport_faults_fired", 1)
	if once {
		e.Count("transient_faults_fired", 1)
	}
	ina := last.Of("inactive")
	if len(ina) != 1 {
		e.Violate("failure-closes", fmt.Sprintf("burst,%s,inactive=%d", []string{"write", "flush"}[what], len(ina)), "the background sender's transport %s call #%d failed (%q) but the channel was not closed (inactive delivered %d times)", []string{"Writev", "Flush"}[what], k, ferr, len(ina))
	} else if ina[0].Err != ferr && !errors.Is(ina[0].Err, ferr) {
		e.Violate("failure-closes", "burst,wrong-error", "channel closed with %q instead of the transport error %q", errStr(ina[0].Err), ferr)
	}
	for _, ev := range rig.Conn.Log {
		if ev.Kind == simnet.EvWritev && len(ev.Bufs) >= q/2+1 {
			e.Count("full_sender_batches", 1)
		}
	}
	rig.Teardown()
}

// panicReader delivers a few bytes and then fails inside Read: by panicking, by returning an error, or by being
// refused downstream (full non-blocking queue).
type panicReader struct {
	n    int
	mode int
	err  error
}

func (r *panicReader) Read(p []byte) (int, error) {
	r.n++
	if r.n == 1 {
		p[0], p[1] = 0x41, 0x42
		return 2, nil
	}
	if r.mode == 0 {
		panic(r.err)
	}
	return 0, r.err
}

// runC07Reader: the fault happens inside the streaming of a reader-typed message (Channel.Write -> head ->
// ReadFrom): it must be routed as an exception like any other, and if it is consumed the channel - including
// further reader-typed messages - stays usable.
//
//go:norace
func runC07Reader(e *Env) {
	cc := e.drawChan(true, []int{2, 8})
	if cc.Async {
		cc.Until = true
	}
	swallow := e.P(3) != 2
	mode := e.P(2)
	ferr := errors.New("injected reader failure")
	e.Describe("channel=%s reader-typed message whose second Read %s; exception handler swallows=%v", cc, []string{"panics", "returns an error"}[mode], swallow)
	e.Count("point:reader-message/"+[]string{"panic", "error"}[mode], 1)
	mid := &Probe{env: e, Name: "mid", Outbound: true, Swallow: swallow}
	rig := e.NewRig(cc, false, mid)
	last := rig.Probe
	var escaped interface{}
	e.Go("main", func() {
		rig.Serve()
		defer func() {
			if r := recover(); r != nil {
				escaped = r
			}
		}()
		e.Step()
		rig.Ch.Write(&panicReader{mode: mode, err: ferr})
	})
	e.RunToEnd()
	if escaped != nil {
		e.Violate("no-escape", "reader-message", "a panic escaped into the caller of Channel.Write: %v", escaped)
	}
	n := 0
	for _, d := range mid.Of("exception") {
		if d.Err == ferr || errors.Is(d.Err, ferr) {
			n++
		}
	}
	if n != 1 {
		e.Violate("routed-once-in-order", "reader-message", "the failure inside the reader-typed message was delivered to the exception handler %d times", n)
	}
	e.Count("handler_panics_fired", 1)
	if swallow {
		if len(last.Of("inactive")) != 0 || !rig.Ch.IsActive() {
			e.Violate("consumed-stays-open", "reader-message", "the exception was consumed but the channel was closed")
		} else {
			c07RoundTrip(e, rig, last)
		}
	}
	rig.Teardown()
}
