package harness

import (
	"context"
	"fmt"
	"io"
	"time"

	netty "github.com/go-netty/go-netty"
	"github.com/go-netty/go-netty/transport"
	"github.com/go-netty/go-netty/verifsim/simnet"
	"github.com/go-netty/go-netty/verifsim/simrt"
)

// Delivery is one event seen by a probe handler.
type Delivery struct {
	Seq   int64
	End   int64 // sequence number when the handler returned
	At    time.Duration
	EndAt time.Duration
	Kind  string // active, read, inactive, exception, event, write
	Task  int
	Probe string
	Msg   interface{}
	Err   error
	Data  []byte
}

// Probe is a recording handler. By default it forwards everything.
type Probe struct {
	env  *Env
	Name string
	Log  []*Delivery

	// behaviour
	ReadTransport bool // HandleRead on a transport message: read up to ReadMax bytes, panic on error
	ReadMax       int
	Swallow       bool // do not forward exceptions
	CloseOnEx     bool // HandleException closes the channel with the exception
	OnActive      func(ctx netty.ActiveContext)
	OnRead        func(ctx netty.InboundContext, msg netty.Message) bool // true: handled, do not run default
	OnInactive    func(ctx netty.InactiveContext, ex netty.Exception)
	OnException   func(ctx netty.ExceptionContext, ex netty.Exception) bool
	OnEvent       func(ctx netty.EventContext, ev netty.Event)
	OnWrite       func(ctx netty.OutboundContext, msg netty.Message) bool
	Outbound      bool // take part in outbound path (otherwise HandleWrite just forwards)
}

//go:norace
func (p *Probe) rec(kind string, msg interface{}, err error) *Delivery {
	d := &Delivery{Seq: p.env.Sim.NextEv(), At: p.env.Sim.Now(), Kind: kind, Probe: p.Name, Msg: msg, Err: err, Task: -1}
	if t := simrt.Me(); t != nil {
		d.Task = t.ID
	}
	p.Log = append(p.Log, d)
	return d
}

//go:norace
func (p *Probe) end(d *Delivery) { d.End, d.EndAt = p.env.Sim.NextEv(), p.env.Sim.Now() }

func (p *Probe) HandleActive(ctx netty.ActiveContext) {
	d := p.rec("active", nil, nil)
	defer p.end(d)
	simrt.Yield(SiteHandler)
	if p.OnActive != nil {
		p.OnActive(ctx)
	}
	ctx.HandleActive()
}

func (p *Probe) HandleRead(ctx netty.InboundContext, msg netty.Message) {
	d := p.rec("read", msg, nil)
	defer p.end(d)
	simrt.Yield(SiteHandler)
	if p.OnRead != nil && p.OnRead(ctx, msg) {
		return
	}
	if p.ReadTransport {
		if r, ok := msg.(io.Reader); ok {
			max := p.ReadMax
			if max <= 0 {
				max = 64
			}
			buf := make([]byte, max)
			n, err := r.Read(buf)
			d.Data = buf[:n]
			if err != nil {
				d.Err = err
				panic(err)
			}
			return
		}
	}
	ctx.HandleRead(msg)
}

func (p *Probe) HandleInactive(ctx netty.InactiveContext, ex netty.Exception) {
	d := p.rec("inactive", nil, ex)
	defer p.end(d)
	simrt.Yield(SiteHandler)
	if p.OnInactive != nil {
		p.OnInactive(ctx, ex)
	}
	ctx.HandleInactive(ex)
}

func (p *Probe) HandleException(ctx netty.ExceptionContext, ex netty.Exception) {
	d := p.rec("exception", nil, ex)
	defer p.end(d)
	simrt.Yield(SiteHandler)
	if p.OnException != nil && p.OnException(ctx, ex) {
		return
	}
	if p.CloseOnEx {
		ctx.Close(ex)
		return
	}
	if p.Swallow {
		return
	}
	ctx.HandleException(ex)
}

func (p *Probe) HandleEvent(ctx netty.EventContext, ev netty.Event) {
	d := p.rec("event", ev, nil)
	defer p.end(d)
	simrt.Yield(SiteHandler)
	if p.OnEvent != nil {
		p.OnEvent(ctx, ev)
	}
	ctx.HandleEvent(ev)
}

func (p *Probe) HandleWrite(ctx netty.OutboundContext, msg netty.Message) {
	if p.Outbound {
		d := p.rec("write", msg, nil)
		defer p.end(d)
		simrt.Yield(SiteHandler)
		if p.OnWrite != nil && p.OnWrite(ctx, msg) {
			return
		}
	}
	ctx.HandleWrite(msg)
}

//go:norace
func (p *Probe) Count(kind string) int {
	n := 0
	for _, d := range p.Log {
		if d.Kind == kind {
			n++
		}
	}
	return n
}

//go:norace
func (p *Probe) Of(kind string) []*Delivery {
	var out []*Delivery
	for _, d := range p.Log {
		if d.Kind == kind {
			out = append(out, d)
		}
	}
	return out
}

// Rig is one real channel over one simulated connection.
type Rig struct {
	Env    *Env
	Conn   *simnet.Conn
	Ch     netty.Channel
	Pl     netty.Pipeline
	X      *Executor
	Probe  *Probe
	Ctx    context.Context
	Cancel context.CancelFunc
	Async  bool
	Q      int
	Until  bool
	Buffered bool // bytes reach the simulated connection only when the buffering wrapper flushes
	ServeInv, ServeRet int64
}

// ChanCfg describes the channel flavour.
type ChanCfg struct {
	Async bool
	Q     int
	Until bool
	WBuf  int // > 0: the channel's transport is the real buffering wrapper transport.NewTransport(conn, RBuf, WBuf)
	RBuf  int // with WBuf: read buffering too (the wrapper variant buffering both directions)
	Wrap  bool // without WBuf: the unbuffered wrapper transport.NewTransport(conn, RBuf, 0) the tcp transport uses
}

func (c ChanCfg) String() string {
	if c.WBuf > 0 {
		d := c
		d.WBuf = 0
		if c.RBuf > 0 {
			return fmt.Sprintf("%s over a transport buffering both directions (read %d, write %d bytes)", d.String(), c.RBuf, c.WBuf)
		}
		return fmt.Sprintf("%s over a %d-byte write-buffered transport", d.String(), c.WBuf)
	}
	if c.Wrap {
		d := c
		d.Wrap = false
		return fmt.Sprintf("%s over the unbuffered transport wrapper (read buffer %d)", d.String(), c.RBuf)
	}
	if !c.Async {
		return "sync"
	}
	if c.Until {
		return fmt.Sprintf("async(q=%d,wait-forever)", c.Q)
	}
	return fmt.Sprintf("async(q=%d,bounded-wait)", c.Q)
}

//go:norace
func (c ChanCfg) Factory() netty.ChannelFactory {
	if !c.Async {
		return netty.NewChannel()
	}
	return netty.NewAsyncWriteChannel(c.Q, c.Until)
}

// NewRig builds a real pipeline (handlers..., probe) and a real channel over a fresh simulated connection.
//
//go:norace
func (e *Env) NewRig(cc ChanCfg, execDelay bool, handlers ...netty.Handler) *Rig {
	r := &Rig{Env: e, Async: cc.Async, Q: cc.Q, Until: cc.Until}
	r.Conn = simnet.NewConn(e.Sim, "c0")
	r.X = e.NewExecutor(execDelay)
	r.Pl = netty.NewPipeline()
	r.Probe = &Probe{env: e, Name: "probe", ReadTransport: true}
	for _, h := range handlers {
		r.Pl.AddLast(h)
	}
	r.Pl.AddLast(r.Probe)
	r.Ctx, r.Cancel = context.WithCancel(context.Background())
	var tr transport.Transport = r.Conn
	if cc.WBuf > 0 {
		tr = transport.NewTransport(r.Conn, cc.RBuf, cc.WBuf)
		r.Buffered = true
	} else if cc.Wrap {
		// (the wrapper's Flush is a no-op and its Writev hands the buffers to the connection one by one: as behind
		// the buffering variants, bytes on the connection are flushed bytes and connection writes need not end on
		// payload boundaries)
		tr = transport.NewTransport(r.Conn, cc.RBuf, 0)
		r.Buffered = true
	}
	r.Ch = cc.Factory()(1, r.Ctx, r.Pl, tr, r.X)
	return r
}

// Serve attaches the channel (blocks the calling task until the active event has been delivered).
func (r *Rig) Serve() {
	r.ServeInv = r.Env.Sim.NextEv()
	r.Pl.ServeChannel(r.Ch)
	r.ServeRet = r.Env.Sim.NextEv()
}

// Teardown closes whatever is still open so that blocked tasks can finish (no oracle looks at this phase).
//
//go:norace
func (r *Rig) Teardown() {
	e := r.Env
	e.Go("teardown", func() {
		r.Conn.Release()
		r.Ch.Close(fmt.Errorf("teardown"))
		r.Cancel()
	})
	e.Sim.StallOK = false
	e.Sim.Run()
}
