//go:build !race

package simrt

const RaceEnabled = false

func raceOff() {}
func raceOn()  {}

func RaceErrors() int { return 0 }
