//go:build race

package simrt

import "runtime"

const RaceEnabled = true

//go:norace
func raceOff() { runtime.RaceDisable() }

//go:norace
func raceOn() { runtime.RaceEnable() }

// RaceErrors is the number of races reported so far in this process.
//
//go:norace
func RaceErrors() int { return runtime.RaceErrors() }
