package simrt

import "time"

// Choice kinds on the tape.
const (
	KPick   = 1 // which runnable task runs next (0 = keep the current one / lowest id)
	KStall  = 2 // let fake time pass although tasks are runnable (0 = no)
	KSelect = 3 // polling order of a select's cases (0 = source order)
	KPool   = 4 // pool Get: which pooled object (0 = most recently put; n-1 = miss)
	KMap    = 5 // map / sync.Map iteration order (0 = sorted / insertion order)
	KNet    = 6 // simnet decisions: fragmentation, faults
	KParam  = 7 // scenario parameters
	KDelay  = 8 // executor start delay and other harness-level timing choices
)

var kindNames = []string{"?", "pick", "stall", "select", "pool", "map", "net", "param", "delay"}

//go:norace
func KindName(k int) string {
	if k > 0 && k < len(kindNames) {
		return kindNames[k]
	}
	return "?"
}

// Entry is one consumed decision.
type Entry struct {
	Kind int
	N    int // number of alternatives offered
	V    int // alternative taken
}

// Scheduling policies for random exploration.
const (
	PolUniform = 0 // uniform random walk over runnable tasks
	PolFewPre  = 1 // keep running; preempt with probability PreemptP
	PolPCT     = 2 // random priorities with D priority change points
)

// Tape is the single source of every nondeterministic decision of a run: drawn from the PRNG in exploration
// mode, read back in replay mode. Past the end of a replayed tape every decision is 0.
type Tape struct {
	Rng      *Rng
	Replay   []Entry
	replayOn bool
	pos      int
	Rec      []Entry
	Diverged int // replay entries whose kind or arity did not match

	// exploration policy (never consulted in replay mode)
	Policy   int
	PreemptP float64
	StallP   float64
	SelectP  float64 // probability of a non-default select order
	PoolP    float64 // probability of a non-default pool decision
	pctPrio  []int
	pctChg   []int
	pctLast  int
	pctRun   int
	pctLow   int
	PCTDepth int
	PCTSpan  int
}

//go:norace
func NewTape(seed uint64) *Tape {
	return &Tape{Rng: NewRng(seed), PreemptP: 0.1, StallP: 0.0, SelectP: 0.5, PoolP: 0.3, PCTSpan: 200}
}

//go:norace
func NewReplayTape(entries []Entry) *Tape {
	return &Tape{Rng: NewRng(1), Replay: entries, replayOn: true}
}

//go:norace
func (tp *Tape) IsReplay() bool { return tp.replayOn }

// take consumes the next decision. gen is called in exploration mode only.
//
//go:norace
func (tp *Tape) take(kind, n int, gen func() int) int {
	if n <= 1 {
		return 0 // forced decisions are not recorded
	}
	v := 0
	if tp.replayOn {
		if tp.pos < len(tp.Replay) {
			e := tp.Replay[tp.pos]
			tp.pos++
			if e.Kind != kind || e.N != n {
				tp.Diverged++
			}
			v = e.V
			if v < 0 {
				v = 0
			}
			if v >= n {
				v = v % n
			}
		}
	} else {
		v = gen()
	}
	tp.Rec = append(tp.Rec, Entry{kind, n, v})
	return v
}

// Choose is the generic decision: uniform in exploration mode.
//
//go:norace
func (tp *Tape) Choose(kind, n int) int {
	return tp.take(kind, n, func() int { return tp.Rng.Intn(n) })
}

// ChooseBiased returns 0 with probability 1-p, otherwise uniform over 1..n-1.
//
//go:norace
func (tp *Tape) ChooseBiased(kind, n int, p float64) int {
	return tp.take(kind, n, func() int {
		if tp.Rng.Float64() >= p {
			return 0
		}
		return 1 + tp.Rng.Intn(n-1)
	})
}

var stallDurations = []time.Duration{0, time.Millisecond, 100 * time.Millisecond, 250 * time.Millisecond, 1100 * time.Millisecond}

//go:norace
func (tp *Tape) stall() time.Duration {
	// whether stall decisions exist in a run is decided by Sim.StallOK (a scenario parameter, itself read from
	// the tape), never by the mode, so that exploration and replay consume the same entries.
	v := tp.take(KStall, len(stallDurations), func() int {
		if tp.Rng.Float64() >= tp.StallP {
			return 0
		}
		return 1 + tp.Rng.Intn(len(stallDurations)-1)
	})
	return stallDurations[v]
}

//go:norace
func (tp *Tape) pick(s *Sim, cands []*Task) int {
	n := len(cands)
	return tp.take(KPick, n, func() int {
		switch tp.Policy {
		case PolFewPre:
			if tp.Rng.Float64() >= tp.PreemptP {
				return 0
			}
			return 1 + tp.Rng.Intn(n-1)
		case PolPCT:
			return tp.pctPick(s, cands)
		}
		return tp.Rng.Intn(n)
	})
}

//go:norace
func (tp *Tape) pctPick(s *Sim, cands []*Task) int {
	if tp.pctChg == nil {
		for i := 0; i < tp.PCTDepth; i++ {
			tp.pctChg = append(tp.pctChg, 1+tp.Rng.Intn(tp.PCTSpan))
		}
		if tp.pctChg == nil {
			tp.pctChg = []int{}
		}
	}
	prio := func(id int) int {
		for len(tp.pctPrio) <= id {
			tp.pctPrio = append(tp.pctPrio, 1000+tp.Rng.Intn(1000000))
		}
		return tp.pctPrio[id]
	}
	best := 0
	for i, t := range cands {
		if prio(t.ID) > prio(cands[best].ID) {
			best = i
		}
	}
	// fairness: a task that spins (never blocks) would starve everybody under strict priorities; after a long
	// uninterrupted run it is demoted, which is what any real scheduler eventually does.
	if id := cands[best].ID; id == tp.pctLast {
		tp.pctRun++
		if tp.pctRun > 120 && len(cands) > 1 {
			tp.pctLow--
			tp.pctPrio[id] = tp.pctLow
			tp.pctRun = 0
			nb := 0
			for j, t := range cands {
				if prio(t.ID) > prio(cands[nb].ID) {
					nb = j
				}
			}
			best = nb
		}
	} else {
		tp.pctLast, tp.pctRun = id, 0
	}
	for i, c := range tp.pctChg {
		if c == s.Steps+1 {
			tp.pctPrio[cands[best].ID] = tp.PCTDepth - i // drop below every initial priority
			nb := 0
			for j, t := range cands {
				if prio(t.ID) > prio(cands[nb].ID) {
					nb = j
				}
			}
			best = nb
		}
	}
	return best
}

// SelectOrder returns the polling order for a select with n communication cases.
//
//go:norace
func (tp *Tape) SelectOrder(n int) []int {
	p := make([]int, n)
	for i := range p {
		p[i] = i
	}
	if n <= 1 {
		return p
	}
	nf := 1
	for i := 2; i <= n && nf < 720; i++ {
		nf *= i
	}
	v := tp.ChooseBiased(KSelect, nf, tp.SelectP)
	// decode v as a permutation (factorial number system)
	avail := append([]int(nil), p...)
	for i := 0; i < n; i++ {
		f := 1
		for j := 2; j < n-i; j++ {
			f *= j
		}
		k := 0
		if f > 0 {
			k = (v / f) % (n - i)
			v = v % f
		}
		p[i] = avail[k]
		avail = append(avail[:k], avail[k+1:]...)
	}
	return p
}

// Rng is a splitmix64 generator.
type Rng struct{ s uint64 }

//go:norace
func NewRng(seed uint64) *Rng { return &Rng{seed*0x9E3779B97F4A7C15 + 0x1234567} }

//go:norace
func (r *Rng) Next() uint64 {
	r.s += 0x9E3779B97F4A7C15
	z := r.s
	z = (z ^ (z >> 30)) * 0xBF58476D1CE4E5B9
	z = (z ^ (z >> 27)) * 0x94D049BB133111EB
	return z ^ (z >> 31)
}

//go:norace
func (r *Rng) Intn(n int) int {
	if n <= 1 {
		return 0
	}
	return int(r.Next() % uint64(n))
}

//go:norace
func (r *Rng) Float64() float64 { return float64(r.Next()>>11) / (1 << 53) }
