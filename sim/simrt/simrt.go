// Package simrt is the deterministic simulation runtime that the instrumented go-netty tree is linked
// against: a run-token scheduler living inside one testing/synctest bubble, a choice tape, and sim-aware
// replacements for the few primitives the Go runtime would otherwise decide on its own (select order,
// mutex hand-off, sync.Pool, sync.Map, map iteration, timers).
//
// Rules of this package (see DESIGN.md 1.2, 1.4):
//   - every function is //go:norace; hand-offs are bracketed by raceOff/raceOn so that the race detector does
//     not see the scheduler's serialisation as program synchronisation;
//   - shared state uses slices and the own PRNG only (no maps, no math/rand, no sync.Map);
//   - every channel the scheduler or a task blocks on is created inside the bubble;
//   - with no active Sim (cur == nil), or when called from a goroutine that is not a task, everything is a
//     pass-through to the real primitive, so the instrumented tree still passes the repo's own tests.
package simrt

import (
	"fmt"
	"runtime"
	"sort"
	"sync"
	"testing/synctest"
	"time"
)

// Task states.
const (
	tsParked  = iota // parked at a yield point, runnable (unless waitMu != 0)
	tsRunning        // holds the run token (or is durably blocked in a real primitive and not yet noticed)
	tsBlocked        // durably blocked in a real primitive (chan op, select, sleep, ...)
	tsDone
)

// Task is one goroutine of the system under test.
type Task struct {
	ID       int
	Name     string
	gid      int64
	resume   chan struct{}
	state    int
	waitMu   uintptr // != 0: waiting for the mutex at this address
	site     int     // site of the visible operation the task is parked at
	timerKey [2]int  // (timer id, firing number) for timer-callback tasks
	Panic    interface{}
	PanicStk string
	Steps    int
	blockedAt int // site at which the task is blocked (state tsBlocked)
	FiredAt   time.Duration // timer-callback tasks: fake time at which the timer fired
	StartEv   int64         // timer-callback tasks: event sequence number reached when the callback began to run
	IsTimer   bool
}

// StepRec is one scheduling step: which task was resumed at which site.
type StepRec struct {
	Task int
	Site int
}

// Run end reasons.
const (
	EndAllDone   = "all-done"
	EndQuiescent = "quiescent"
	EndSteps     = "step-bound"
	EndHorizon   = "time-horizon"
	EndStopped   = "stopped"
)

// Sim is one simulated execution.
type Sim struct {
	mu         sync.Mutex
	tasks      []*Task
	pendingNew []*Task // timer tasks registered since the last pick (order is real-time dependent => sorted)
	current    *Task
	wake       chan struct{}
	start      time.Time

	Tape *Tape

	Steps     int
	MaxSteps  int
	Horizon   time.Duration // fake-time bound
	StallOK   bool          // scenario allows stall decisions
	timeSens  bool          // a sleep/timer exists in this run
	Stalls    int
	TimeJumps int
	sameRun      int // consecutive picks of the same task
	FairSwitches int
	sinceAdv  int // scheduling steps since fake time last advanced
	Forced    int // forced time advances (a spinning task must not freeze the clock)
	Switches  int // context switches (resumed task != previous task)
	Trace     []StepRec
	KeepTrace bool
	SchedHash uint64
	Pairs     []uint64 // site-pair coverage keys (siteA<<32|siteB) of adjacent steps by different tasks
	OnStep    func()   // invariant hook, called by the scheduler while everything is parked
	stop      bool
	dead      bool
	nextTimer int
	EvSeq     int64 // global event sequence number (harness recorder)

	Outcomes []OutcomeCount // per (site,outcome) counters
	Log      []string       // optional event log lines (determinism self-test)
	KeepLog  bool
}

type OutcomeCount struct {
	Site    int
	Outcome int
	N       int
}

var cur *Sim

// Cur returns the active simulation (nil outside runs).
//
//go:norace
func Cur() *Sim { return cur }

// New creates a simulation. Must be called inside a synctest bubble.
//
//go:norace
func New(tape *Tape) *Sim {
	s := &Sim{Tape: tape, MaxSteps: 20000, Horizon: 4 * time.Hour, SchedHash: 1469598103934665603}
	s.wake = make(chan struct{}, 4096)
	s.start = time.Now()
	pendingWriters = nil
	cur = s
	return s
}

// Finish deactivates the simulation: later calls from leaked goroutines become pass-through.
//
//go:norace
func (s *Sim) Finish() {
	raceOff()
	s.mu.Lock()
	s.dead = true
	s.mu.Unlock()
	raceOn()
	if cur == s {
		cur = nil
	}
}

//go:norace
func goid() int64 {
	var buf [64]byte
	n := runtime.Stack(buf[:], false)
	var id int64
	for _, c := range buf[10:n] { // "goroutine 123 ["
		if c < '0' || c > '9' {
			break
		}
		id = id*10 + int64(c-'0')
	}
	return id
}

//go:norace
func (s *Sim) me() *Task {
	g := goid()
	raceOff()
	s.mu.Lock()
	var t *Task
	for i := len(s.tasks) - 1; i >= 0; i-- {
		if x := s.tasks[i]; x.gid == g && x.state != tsDone {
			t = x
			break
		}
	}
	s.mu.Unlock()
	raceOn()
	return t
}

// Me returns the calling task (nil if the caller is not a task).
//
//go:norace
func Me() *Task {
	s := cur
	if s == nil {
		return nil
	}
	return s.me()
}

// Now is the fake time elapsed since the simulation started.
//
//go:norace
func (s *Sim) Now() time.Duration { return time.Since(s.start) }

// NextEv returns the next global event sequence number. Only token holders (or the scheduler) call it.
//
//go:norace
func (s *Sim) NextEv() int64 { s.EvSeq++; return s.EvSeq }

// Spawn starts f as a new task. The goroutine is created by the caller (keeps the go-statement
// happens-before edge); it starts parked.
//
//go:norace
func (s *Sim) Spawn(name string, f func()) *Task {
	raceOff()
	s.mu.Lock()
	t := &Task{ID: len(s.tasks), Name: name, resume: make(chan struct{}), state: tsParked}
	s.tasks = append(s.tasks, t)
	s.mu.Unlock()
	raceOn()
	go s.taskMain(t, f)
	return t
}

//go:norace
func (s *Sim) taskMain(t *Task, f func()) {
	raceOff()
	s.mu.Lock()
	t.gid = goid()
	s.mu.Unlock()
	<-t.resume
	raceOn()
	defer s.taskExit(t)
	f()
}

//go:norace
func (s *Sim) taskExit(t *Task) {
	if r := recover(); r != nil {
		t.Panic = r
		var buf [4096]byte
		t.PanicStk = string(buf[:runtime.Stack(buf[:], false)])
	}
	raceOff()
	s.mu.Lock()
	t.state = tsDone
	s.mu.Unlock()
	raceOn()
}

// Go is what `go f()` is rewritten to.
//
//go:norace
func Go(site int, f func()) {
	s := cur
	if s == nil || s.dead {
		go f()
		return
	}
	s.Spawn(fmt.Sprintf("go@%s", SiteName(site)), f)
}

// park parks the calling task t at site until the scheduler resumes it.
//
//go:norace
func (s *Sim) park(t *Task, site int, waitMu uintptr, signal bool) {
	raceOff()
	s.mu.Lock()
	if s.dead {
		s.mu.Unlock()
		raceOn()
		return
	}
	t.state = tsParked
	t.site = site
	t.waitMu = waitMu
	s.mu.Unlock()
	if signal {
		select {
		case s.wake <- struct{}{}:
		default:
		}
	}
	<-t.resume
	raceOn()
}

// Yield is a preemption point placed before a visible operation.
//
//go:norace
func Yield(site int) {
	s := cur
	if s == nil {
		return
	}
	t := s.me()
	if t == nil {
		return
	}
	s.park(t, site, 0, false)
}

// Woken is called right after a potentially blocking real operation returned. If the operation did block,
// the task does not hold the run token any more and must park until it is scheduled again.
//
//go:norace
func Woken(site int) {
	s := cur
	if s == nil {
		return
	}
	t := s.me()
	if t == nil {
		return
	}
	raceOff()
	s.mu.Lock()
	blocked := t.state == tsBlocked
	s.mu.Unlock()
	raceOn()
	if !blocked {
		return // the operation completed without blocking: still the token holder
	}
	s.park(t, site, 0, true)
}

// YP yields and returns its argument: used to place a yield during argument evaluation.
//
//go:norace
func YP[T any](site int, p T) T { Yield(site); return p }

// Out records the outcome of the visible operation at site and passes the value through.
//
//go:norace
func Out[T any](site int, v T) T {
	s := cur
	if s == nil {
		return v
	}
	o := -1
	switch x := any(v).(type) {
	case bool:
		if x {
			o = 1
		} else {
			o = 0
		}
	case int32:
		o = clampOutcome(int64(x))
	case int64:
		o = clampOutcome(x)
	case uint32:
		o = clampOutcome(int64(x))
	case int:
		o = clampOutcome(int64(x))
	}
	if o >= 0 {
		s.Outcome(site, o)
	}
	return v
}

//go:norace
func clampOutcome(x int64) int {
	if x < 0 {
		return 9
	}
	if x > 8 {
		return 8
	}
	return int(x)
}

// Outcome bumps the (site, outcome) counter.
//
//go:norace
func (s *Sim) Outcome(site, outcome int) {
	for i := range s.Outcomes {
		if s.Outcomes[i].Site == site && s.Outcomes[i].Outcome == outcome {
			s.Outcomes[i].N++
			return
		}
	}
	s.Outcomes = append(s.Outcomes, OutcomeCount{site, outcome, 1})
}

// Logf appends a line to the deterministic event log (only token holders / the scheduler may call it).
//
//go:norace
func (s *Sim) Logf(format string, args ...interface{}) {
	if s.KeepLog {
		s.Log = append(s.Log, fmt.Sprintf(format, args...))
	}
}

// Stop asks the scheduler to return from Run at the next pick.
//
//go:norace
func (s *Sim) Stop() { s.stop = true }

// Tasks returns a snapshot of the tasks (scheduler / oracle use, while everything is parked).
//
//go:norace
func (s *Sim) Tasks() []*Task {
	raceOff()
	s.mu.Lock()
	out := append([]*Task(nil), s.tasks...)
	s.mu.Unlock()
	raceOn()
	return out
}

// State names for reports.
//
//go:norace
func (t *Task) StateName() string {
	switch t.state {
	case tsParked:
		if t.waitMu != 0 {
			return "wait-mutex"
		}
		return "parked"
	case tsRunning:
		return "running"
	case tsBlocked:
		return "blocked"
	}
	return "done"
}

//go:norace
func (t *Task) Done() bool { return t.state == tsDone }

//go:norace
func (t *Task) Blocked() bool { return t.state == tsBlocked }

//go:norace
func (t *Task) BlockedSite() int { return t.blockedAt }

//go:norace
func (t *Task) WaitingMutex() bool { return t.state == tsParked && t.waitMu != 0 }

// Run drives the simulation until every task is done, nothing can ever run again (quiescent), or a bound.
//
//go:norace
func (s *Sim) Run() string {
	s.stop = false
	for {
		synctest.Wait()
		raceOff()
		s.mu.Lock()
		if c := s.current; c != nil && c.state == tsRunning {
			c.state = tsBlocked // the token holder is durably blocked inside a real primitive
			c.blockedAt = c.site
		}
		if len(s.pendingNew) > 0 {
			sort.Slice(s.pendingNew, func(i, j int) bool {
				a, b := s.pendingNew[i].timerKey, s.pendingNew[j].timerKey
				if a[0] != b[0] {
					return a[0] < b[0]
				}
				return a[1] < b[1]
			})
			for _, t := range s.pendingNew {
				t.ID = len(s.tasks)
				s.tasks = append(s.tasks, t)
			}
			s.pendingNew = s.pendingNew[:0]
		}
		var run []*Task
		alive := 0
		for _, t := range s.tasks {
			if t.state != tsDone {
				alive++
			}
			if t.state == tsParked && t.waitMu == 0 {
				run = append(run, t)
			}
		}
		s.mu.Unlock()
		raceOn()

		if s.OnStep != nil {
			s.OnStep()
		}
		if s.stop {
			return EndStopped
		}
		if s.Steps >= s.MaxSteps {
			return EndSteps
		}
		if s.Now() >= s.Horizon {
			return EndHorizon
		}
		if len(run) == 0 {
			// nothing runnable: let the fake clock run to the next timer; a full fake hour without any task
			// becoming runnable means nothing can ever run again.
			// (also when no task is alive: a timer that is still armed would start a new callback task)
			if s.idleWait(time.Hour) {
				if alive == 0 {
					return EndAllDone
				}
				return EndQuiescent
			}
			s.TimeJumps++
			s.sinceAdv = 0
			continue
		}
		// computing takes time: a task that spins without ever blocking must not freeze the fake clock for the
		// sleepers and timers of the run. Deterministic rule, not a tape decision.
		if s.timeSens && s.sinceAdv >= 400 {
			s.sinceAdv = 0
			s.Forced++
			s.idleWait(100 * time.Millisecond)
			s.Logf("forced time advance -> t=%v", s.Now())
			continue
		}
		if s.StallOK && s.timeSens {
			if d := s.Tape.stall(); d > 0 {
				s.Stalls++
				s.idleWait(d)
				s.Logf("stall %v -> t=%v", d, s.Now())
				continue
			}
		}
		// order candidates: current task first (so that 0 = "keep running"), then by id
		cands := run
		if c := s.current; c != nil && c.state == tsParked && c.waitMu == 0 {
			cands = make([]*Task, 0, len(run))
			cands = append(cands, c)
			for _, t := range run {
				if t != c {
					cands = append(cands, t)
				}
			}
		}
		var t *Task
		if s.sameRun >= 200 && len(cands) > 1 && cands[0] == s.current {
			// fairness: a spinning task cannot monopolise the run token for ever (deterministic rule, both in
			// exploration and in replay, where decisions past the end of the tape are 0 = "keep running")
			t = cands[1+(s.Steps%(len(cands)-1))]
			s.FairSwitches++
		} else {
			t = cands[s.Tape.pick(s, cands)]
		}
		if t == s.current {
			s.sameRun++
		} else {
			s.sameRun = 0
		}
		s.Steps++
		s.sinceAdv++
		t.Steps++
		if s.current != t {
			s.Switches++
			if s.current != nil {
				s.addPair(s.current.site, t.site)
			}
		}
		s.SchedHash = (s.SchedHash ^ uint64(t.ID+1)) * 1099511628211
		s.SchedHash = (s.SchedHash ^ uint64(t.site+7)) * 1099511628211
		if s.KeepTrace {
			s.Trace = append(s.Trace, StepRec{t.ID, t.site})
		}
		s.Logf("step %d task %d(%s) site %s t=%v", s.Steps, t.ID, t.Name, SiteName(t.site), s.Now())
		raceOff()
		s.mu.Lock()
		s.current = t
		t.state = tsRunning
		s.mu.Unlock()
		t.resume <- struct{}{}
		raceOn()
	}
}

//go:norace
func (s *Sim) addPair(a, b int) {
	k := uint64(uint32(a))<<32 | uint64(uint32(b))
	for _, x := range s.Pairs {
		if x == k {
			return
		}
	}
	s.Pairs = append(s.Pairs, k)
}

// idleWait blocks the scheduler for at most d of fake time or until a task signals that it became runnable.
// Returns true if the full duration elapsed without a signal.
//
//go:norace
func (s *Sim) idleWait(d time.Duration) bool {
	raceOff()
	defer raceOn()
	// drain stale signals
	for {
		select {
		case <-s.wake:
			continue
		default:
		}
		break
	}
	tm := time.NewTimer(d)
	select {
	case <-tm.C:
		return true
	case <-s.wake:
		tm.Stop()
		return false
	}
}

// ---------------------------------------------------------------------------------------------------------
// blocking helpers used by the instrumented code

//go:norace
func Recv[T any](site int, ch <-chan T) T {
	Yield(site)
	v := <-ch
	Woken(site)
	return v
}

//go:norace
func Recv2[T any](site int, ch <-chan T) (T, bool) {
	Yield(site)
	v, ok := <-ch
	Woken(site)
	return v, ok
}

//go:norace
func Send[T any](site int, ch chan<- T, v T) {
	Yield(site)
	ch <- v
	Woken(site)
}

//go:norace
func Sleep(site int, d time.Duration) {
	if s := cur; s != nil {
		s.timeSens = true
	}
	Yield(site)
	time.Sleep(d)
	Woken(site)
}

// TimeSensitive tells the scheduler that timers exist in this run (enables stall decisions).
//
//go:norace
func (s *Sim) TimeSensitive() { s.timeSens = true }

// TimerTask wraps a time.AfterFunc callback so that it runs as a scheduled task.
//
//go:norace
func TimerTask(site int, f func()) func() {
	s := cur
	if s == nil || s.me() == nil {
		return f
	}
	s.timeSens = true
	s.nextTimer++
	id := s.nextTimer
	fires := 0
	// (formatted here, not in the callback's race-detector-off section: fmt recycles printers through a sync.Pool
	// whose synchronisation events would be lost there and surface as false reports inside fmt)
	name := fmt.Sprintf("timer%d@%s", id, SiteName(site))
	return func() {
		raceOff()
		s.mu.Lock()
		if s.dead {
			s.mu.Unlock()
			raceOn()
			return
		}
		fires++
		t := &Task{ID: -1, Name: name, resume: make(chan struct{}),
			state: tsParked, site: site, timerKey: [2]int{id, fires}, gid: goid(), FiredAt: time.Since(s.start), IsTimer: true}
		s.pendingNew = append(s.pendingNew, t)
		s.mu.Unlock()
		select {
		case s.wake <- struct{}{}:
		default:
		}
		<-t.resume
		t.StartEv = s.EvSeq
		raceOn()
		defer s.taskExit(t)
		f()
	}
}

// ---------------------------------------------------------------------------------------------------------
// mutexes: a task never blocks inside a real Lock (that would not be a durable block for synctest)

//go:norace
func (s *Sim) lockLoop(site int, addr uintptr, try func() bool, lock func()) {
	t := s.me()
	if t == nil {
		lock()
		return
	}
	s.park(t, site, 0, false)
	for !try() {
		s.park(t, site, addr, false)
	}
}

//go:norace
func (s *Sim) released(addr uintptr) {
	raceOff()
	s.mu.Lock()
	for _, t := range s.tasks {
		if t.waitMu == addr {
			t.waitMu = 0
		}
	}
	s.mu.Unlock()
	raceOn()
}
