package simrt

import (
	"fmt"
	"reflect"
	"sort"
	"sync"
	"unsafe"
)

// ---- mutexes ---------------------------------------------------------------------------------------------

//go:norace
func MuLock(site int, m *sync.Mutex) {
	s := cur
	if s == nil {
		m.Lock()
		return
	}
	s.lockLoop(site, uintptr(unsafe.Pointer(m)), m.TryLock, m.Lock)
}

//go:norace
func MuUnlock(site int, m *sync.Mutex) {
	m.Unlock()
	if s := cur; s != nil {
		s.released(uintptr(unsafe.Pointer(m)))
	}
}

// Go's RWMutex prefers writers: once a writer waits in Lock, readers that arrive later block until it has had
// its turn. Tasks never block inside the real mutex here, so the pending writers are tracked explicitly.
var pendingWriters []uintptr

//go:norace
func writerPending(addr uintptr) bool {
	for _, a := range pendingWriters {
		if a == addr {
			return true
		}
	}
	return false
}

//go:norace
func dropPendingWriter(addr uintptr) {
	for i, a := range pendingWriters {
		if a == addr {
			pendingWriters = append(pendingWriters[:i], pendingWriters[i+1:]...)
			return
		}
	}
}

//go:norace
func RWLock(site int, m *sync.RWMutex) {
	s := cur
	if s == nil || s.me() == nil {
		m.Lock()
		return
	}
	addr := uintptr(unsafe.Pointer(m))
	announced := false
	s.lockLoop(site, addr, func() bool {
		if m.TryLock() {
			if announced {
				dropPendingWriter(addr)
			}
			return true
		}
		if !announced {
			announced = true
			pendingWriters = append(pendingWriters, addr)
		}
		return false
	}, m.Lock)
}

//go:norace
func RWUnlock(site int, m *sync.RWMutex) {
	m.Unlock()
	if s := cur; s != nil {
		s.released(uintptr(unsafe.Pointer(m)))
	}
}

//go:norace
func RWRLock(site int, m *sync.RWMutex) {
	s := cur
	if s == nil {
		m.RLock()
		return
	}
	addr := uintptr(unsafe.Pointer(m))
	s.lockLoop(site, addr, func() bool { return !writerPending(addr) && m.TryRLock() }, m.RLock)
}

//go:norace
func RWRUnlock(site int, m *sync.RWMutex) {
	m.RUnlock()
	if s := cur; s != nil {
		s.released(uintptr(unsafe.Pointer(m)))
	}
}

// Once replaces sync.Once (whose internal mutex a parked task could hold).
type Once struct {
	mu   sync.Mutex
	done bool
}

func (o *Once) Do(f func()) {
	MuLock(siteOnce, &o.mu)
	defer MuUnlock(siteOnce, &o.mu)
	if !o.done {
		defer func() { o.done = true }()
		f()
	}
}

// WgWait: WaitGroup.Wait blocks durably inside a bubble.
//
//go:norace
func WgWait(site int, wg *sync.WaitGroup) {
	Yield(site)
	wg.Wait()
	Woken(site)
}

// ---- select ----------------------------------------------------------------------------------------------

type Case = reflect.SelectCase

//go:norace
func SendCase[T any](ch chan<- T, v T) Case {
	return Case{Dir: reflect.SelectSend, Chan: reflect.ValueOf(ch), Send: reflect.ValueOf(&v).Elem()}
}

//go:norace
func RecvCase[T any](ch <-chan T) Case {
	return Case{Dir: reflect.SelectRecv, Chan: reflect.ValueOf(ch)}
}

// Select polls the cases one by one in the order taken from the tape; if none is ready it takes the default
// branch (-1) or blocks in the real select. While the caller holds the run token nothing else changes state,
// so "none ready" stays true until the task really blocks, and a blocked select is completed by exactly one
// enabling event.
//
//go:norace
func Select(site int, hasDefault bool, cases ...Case) (int, reflect.Value, bool) {
	s := cur
	var t *Task
	if s != nil {
		t = s.me()
	}
	if t == nil {
		if hasDefault {
			cs := append(append([]Case(nil), cases...), Case{Dir: reflect.SelectDefault})
			i, rv, ok := reflect.Select(cs)
			if i == len(cases) {
				return -1, reflect.Value{}, false
			}
			return i, rv, ok
		}
		return reflect.Select(cases)
	}
	s.park(t, site, 0, false)
	order := s.Tape.SelectOrder(len(cases))
	for _, i := range order {
		if j, rv, ok := reflect.Select([]Case{cases[i], {Dir: reflect.SelectDefault}}); j == 0 {
			s.Outcome(site, i)
			return i, rv, ok
		}
	}
	if hasDefault {
		s.Outcome(site, 7)
		return -1, reflect.Value{}, false
	}
	i, rv, ok := reflect.Select(cases)
	Woken(site)
	if s2 := cur; s2 == s {
		s.Outcome(site, i)
	}
	return i, rv, ok
}

//go:norace
func As[T any](ch <-chan T, rv reflect.Value) T {
	if !rv.IsValid() {
		var z T
		return z
	}
	v, _ := rv.Interface().(T)
	return v
}

// ---- sync.Pool -------------------------------------------------------------------------------------------

// Pool is a deterministic sync.Pool: the tape decides hit/miss and which pooled object is returned. The
// embedded real mutex is locked with race instrumentation on, which gives the Put->Get happens-before edge a
// real sync.Pool provides (over-approximated to the whole pool).
type Pool struct {
	New   func() any
	hb    sync.Mutex
	items []any
	reg   bool
}

var (
	poolsMu  sync.Mutex
	allPools []*Pool
)

//go:norace
func (p *Pool) register() {
	if !p.reg {
		poolsMu.Lock()
		if !p.reg {
			p.reg = true
			allPools = append(allPools, p)
		}
		poolsMu.Unlock()
	}
}

// ResetPools empties every pool: each run starts from the same (empty) pool state, whatever ran before it in
// the worker process.
//
//go:norace
func ResetPools() {
	poolsMu.Lock()
	for _, p := range allPools {
		p.items = nil
	}
	poolsMu.Unlock()
}

//go:norace
func (p *Pool) Get() any {
	p.register()
	p.hb.Lock()
	var x any
	got := false
	if n := len(p.items); n > 0 {
		k := 0
		if s := cur; s != nil && s.me() != nil {
			k = s.Tape.ChooseBiased(KPool, n+1, s.Tape.PoolP)
			s.Outcome(sitePoolGet, boolInt(k < n))
		}
		if k < n {
			i := n - 1 - k
			x = p.items[i]
			p.items = append(p.items[:i], p.items[i+1:]...)
			got = true
		}
	} else if s := cur; s != nil {
		s.Outcome(sitePoolGet, 2)
	}
	p.hb.Unlock()
	if !got && p.New != nil {
		return p.New()
	}
	return x
}

//go:norace
func (p *Pool) Put(x any) {
	if x == nil {
		return
	}
	p.register()
	p.hb.Lock()
	if len(p.items) < 64 {
		p.items = append(p.items, x)
	}
	p.hb.Unlock()
}

//go:norace
func boolInt(b bool) int {
	if b {
		return 1
	}
	return 0
}

// ---- sync.Map --------------------------------------------------------------------------------------------

// SyncMap is an insertion-ordered sync.Map replacement; Range order is taken from the tape.
type SyncMap struct {
	mu   sync.Mutex
	keys []any
	vals []any
	reg  bool
}

var (
	mapsMu  sync.Mutex
	allMaps []*SyncMap
)

// register remembers every map ever used so that ResetGlobals can empty package-level ones between runs
// (a run must not depend on what earlier runs of the same worker process left behind).
func (m *SyncMap) register() {
	if !m.reg {
		mapsMu.Lock()
		if !m.reg {
			m.reg = true
			allMaps = append(allMaps, m)
		}
		mapsMu.Unlock()
	}
}

// ResetGlobals empties every pool and every sync.Map replacement.
func ResetGlobals() {
	ResetPools()
	mapsMu.Lock()
	for _, m := range allMaps {
		m.mu.Lock()
		m.keys, m.vals = nil, nil
		m.mu.Unlock()
	}
	if len(allMaps) > 4096 {
		// mostly per-instance maps of finished runs; package-level ones re-register on their next use
		for _, m := range allMaps {
			m.reg = false
		}
		allMaps = allMaps[:0]
	}
	mapsMu.Unlock()
}

func (m *SyncMap) find(k any) int {
	for i, x := range m.keys {
		if x == k {
			return i
		}
	}
	return -1
}

func (m *SyncMap) Load(k any) (any, bool) {
	m.register()
	Yield(siteSyncMap)
	m.mu.Lock()
	defer m.mu.Unlock()
	if i := m.find(k); i >= 0 {
		return m.vals[i], true
	}
	return nil, false
}

func (m *SyncMap) Store(k, v any) {
	m.register()
	Yield(siteSyncMap)
	m.mu.Lock()
	defer m.mu.Unlock()
	if i := m.find(k); i >= 0 {
		m.vals[i] = v
		return
	}
	m.keys, m.vals = append(m.keys, k), append(m.vals, v)
}

func (m *SyncMap) LoadOrStore(k, v any) (any, bool) {
	m.register()
	Yield(siteSyncMap)
	m.mu.Lock()
	defer m.mu.Unlock()
	if i := m.find(k); i >= 0 {
		return m.vals[i], true
	}
	m.keys, m.vals = append(m.keys, k), append(m.vals, v)
	return v, false
}

func (m *SyncMap) LoadAndDelete(k any) (any, bool) {
	m.register()
	Yield(siteSyncMap)
	m.mu.Lock()
	defer m.mu.Unlock()
	if i := m.find(k); i >= 0 {
		v := m.vals[i]
		m.keys = append(m.keys[:i:i], m.keys[i+1:]...)
		m.vals = append(m.vals[:i:i], m.vals[i+1:]...)
		return v, true
	}
	return nil, false
}

func (m *SyncMap) Delete(k any) { m.LoadAndDelete(k) }

func (m *SyncMap) Range(f func(k, v any) bool) {
	m.register()
	Yield(siteSyncMap)
	m.mu.Lock()
	ks, vs := append([]any(nil), m.keys...), append([]any(nil), m.vals...)
	m.mu.Unlock()
	for _, i := range iterOrder(len(ks)) {
		// like sync.Map.Range, an entry deleted meanwhile may or may not be visited; we visit the snapshot
		if !f(ks[i], vs[i]) {
			return
		}
	}
}

// iterOrder: rotation + direction chosen from the tape (2n alternatives, 0 = natural order).
//
//go:norace
func iterOrder(n int) []int {
	p := make([]int, n)
	for i := range p {
		p[i] = i
	}
	s := cur
	if s == nil || n <= 1 || s.me() == nil {
		return p
	}
	v := s.Tape.Choose(KMap, 2*n)
	rot, rev := v%n, v >= n
	for i := range p {
		j := (i + rot) % n
		if rev {
			j = (n - 1 - i + rot) % n
		}
		p[i] = j
	}
	return p
}

// MapKeys returns the keys of m in an order chosen by the tape (0 = sorted).
//
//go:norace
func MapKeys[K comparable, V any](site int, m map[K]V) []K {
	ks := make([]K, 0, len(m))
	for k := range m {
		ks = append(ks, k)
	}
	sort.Slice(ks, func(i, j int) bool { return less(ks[i], ks[j]) })
	ord := iterOrder(len(ks))
	out := make([]K, len(ks))
	for i, j := range ord {
		out[i] = ks[j]
	}
	return out
}

//go:norace
func less(a, b any) bool {
	switch x := a.(type) {
	case int:
		return x < b.(int)
	case int64:
		return x < b.(int64)
	case string:
		return x < b.(string)
	}
	return fmt.Sprint(a) < fmt.Sprint(b)
}
