package simrt

import "fmt"

// Reserved site numbers (the instrumenter numbers the sites of the repository from SiteBase upwards).
const (
	siteOnce    = 1
	siteSyncMap = 2
	sitePoolGet = 3

	// 10..39: simnet, 40..99: harness (declared there, named through RegisterSite)
	SiteBase = 100
)

var siteNames = []string{siteOnce: "simrt:once", siteSyncMap: "simrt:syncmap", sitePoolGet: "simrt:pool.Get"}

// RegisterSite names a reserved site (simnet / harness).
//
//go:norace
func RegisterSite(site int, name string) {
	for len(siteNames) <= site {
		siteNames = append(siteNames, "")
	}
	siteNames[site] = name
}

// repoSites is filled by the generated file zz_sites.go (index = site - SiteBase).
var repoSites []string

//go:norace
func SiteName(site int) string {
	if site >= SiteBase && site-SiteBase < len(repoSites) {
		return repoSites[site-SiteBase]
	}
	if site >= 0 && site < len(siteNames) && siteNames[site] != "" {
		return siteNames[site]
	}
	return fmt.Sprintf("site%d", site)
}

// RepoSites returns the instrumented sites of the repository.
func RepoSites() []string { return repoSites }
