// Package simnet is the only network the simulated system sees: an in-memory connection, acceptor and
// transport factory whose fragmentation, delays and faults are decided by the simulation tape.
//
// All state is touched only by the task that holds the run token (or by the scheduler goroutine while every
// task is parked), so there is no locking; every function is //go:norace so that simnet adds no
// happens-before edges a real network would not add (DESIGN.md 1.4, 1.5).
package simnet

import (
	"errors"
	"fmt"
	"io"
	"net"
	"time"

	"github.com/go-netty/go-netty/transport"
	"github.com/go-netty/go-netty/verifsim/simrt"
)

// Sites (reserved range 10..39).
const (
	SiteRead     = 10
	SiteWrite    = 11
	SiteWritev   = 12
	SiteFlush    = 13
	SiteClose    = 14
	SiteDeadline = 15
	SiteAccept   = 16
	SiteAccClose = 17
	SiteConnect  = 18
	SiteListen   = 19
	SiteFeed     = 20
)

func init() {
	for s, n := range map[int]string{SiteRead: "simnet:Read", SiteWrite: "simnet:Write", SiteWritev: "simnet:Writev",
		SiteFlush: "simnet:Flush", SiteClose: "simnet:Close", SiteDeadline: "simnet:SetDeadline", SiteAccept: "simnet:Accept",
		SiteAccClose: "simnet:Acceptor.Close", SiteConnect: "simnet:Connect", SiteListen: "simnet:Listen", SiteFeed: "simnet:feed"} {
		simrt.RegisterSite(s, n)
	}
}

// Event kinds in a connection log.
const (
	EvWriteEnter = iota + 1 // a Write/Writev call entered (before its preemption point)
	EvWrite                 // bytes accepted by Write
	EvWritev                // bytes accepted by Writev
	EvWriteErr              // Write/Writev failed
	EvFlush
	EvFlushErr
	EvClose
	EvRead
	EvReadErr
	EvReadBlock
)

// Ev is one logged transport operation.
type Ev struct {
	Seq   int64
	Kind  int
	Task  int
	At    time.Duration
	Off   int // offset in Wire of the first byte (writes) / in the inbound stream (reads)
	N     int
	Bufs  []int // sizes of the individual buffers of a Writev
	Err   error
	Enter int64 // Seq of the matching EvWriteEnter
}

// Fragmentation modes for reads.
const (
	FragWhole  = 0 // as much as fits
	FragByte   = 1 // one byte per read
	FragRandom = 2 // tape-chosen size each time
	FragMixed  = 3 // tape chooses among the three each time
)

type simAddr string

func (a simAddr) Network() string { return "sim" }
func (a simAddr) String() string  { return string(a) }

// ErrReset is a non-timeout net.Error, like a connection reset.
var ErrReset net.Error = &net.OpError{Op: "read", Net: "sim", Err: errors.New("connection reset by peer")}

type timeoutErr struct{}

func (timeoutErr) Error() string   { return "i/o timeout (simulated)" }
func (timeoutErr) Timeout() bool   { return true }
func (timeoutErr) Temporary() bool { return true }

// ErrTimeout is a timeout net.Error.
var ErrTimeout net.Error = &net.OpError{Op: "read", Net: "sim", Err: timeoutErr{}}

// Conn implements transport.Transport and net.Conn.
type Conn struct {
	Name string
	sim  *simrt.Sim

	// inbound stream
	in        []byte
	inOff     int   // bytes consumed so far
	inEnd     error // returned once the stream is exhausted (nil: block)
	inEndOnce bool  // inEnd is delivered once, then reads block again
	waiters   []chan struct{}
	Frag      int
	readDL    time.Time
	byteReads int

	// outbound
	Log        []Ev
	Wire       []byte
	Unflushed  int
	Closed     bool
	CloseCount int
	Peer       *Conn // joined connection: accepted bytes are fed to Peer's inbound stream
	Buffered   bool  // model a buffering transport: bytes reach Peer only on Flush

	// write-side faults
	FailWriteAt  int   // 1-based index of the Write/Writev call that fails (0: never)
	FailWriteErr error
	FailPartial  bool  // the failing call accepts a prefix before failing
	FailOnce     bool  // only the k-th call fails (a transient fault); otherwise the k-th and all later calls
	FailFlushAt  int
	FailFlushErr error
	CloseErr     error // the (first, effective) Close closes the connection and still reports this error (e.g. a failed TLS close_notify)
	writeCalls   int
	flushCalls   int
	Stalled      bool // Write/Writev block until Release
	stallWait    []chan struct{}

	// counters of what actually fired
	Fired Fired
}

// Fired counts the faults and fragmentations that really happened.
type Fired struct {
	ShortReads, ByteReads, BlockedReads, EOFs, Resets, Timeouts, WriteErrs, FlushErrs, WriteStalls, WriteAfterClose, CloseErrs int
}

//go:norace
func NewConn(sim *simrt.Sim, name string) *Conn { return &Conn{Name: name, sim: sim} }

//go:norace
func (c *Conn) log(e Ev) int64 {
	e.Seq = c.sim.NextEv()
	e.At = c.sim.Now()
	if t := simrt.Me(); t != nil {
		e.Task = t.ID
	} else {
		e.Task = -1
	}
	c.Log = append(c.Log, e)
	return e.Seq
}

//go:norace
func (c *Conn) wakeReaders() {
	for _, w := range c.waiters {
		close(w)
	}
	c.waiters = nil
}

// Feed appends bytes to the inbound stream (called by peer tasks or before the run starts).
//
//go:norace
func (c *Conn) Feed(b []byte) {
	if len(b) == 0 {
		return
	}
	c.in = bappend(c.in, b)
	c.wakeReaders()
}

// EndInput makes reads fail with err once the inbound stream is exhausted.
//
//go:norace
func (c *Conn) EndInput(err error, once bool) {
	c.inEnd, c.inEndOnce = err, once
	c.wakeReaders()
}

// InboundConsumed is the number of inbound bytes handed out by Read so far.
//
//go:norace
func (c *Conn) InboundConsumed() int { return c.inOff }

//go:norace
func (c *Conn) InboundPending() int { return len(c.in) }

//go:norace
func closedErr(op string) error { return &net.OpError{Op: op, Net: "sim", Err: net.ErrClosed} }

// Read returns at most one tape-chosen fragment of the available bytes and blocks (durably) when none is there.
//
//go:norace
func (c *Conn) Read(p []byte) (int, error) {
	simrt.Yield(SiteRead)
	for {
		if c.Closed {
			c.log(Ev{Kind: EvReadErr, Off: c.inOff, Err: net.ErrClosed})
			return 0, closedErr("read")
		}
		if len(p) == 0 {
			return 0, nil
		}
		if avail := len(c.in); avail > 0 {
			max := avail
			if len(p) < max {
				max = len(p)
			}
			n := max
			mode := c.Frag
			if mode == FragMixed {
				mode = c.sim.Tape.Choose(simrt.KNet, 3)
			}
			if mode == FragByte && c.byteReads >= 300 {
				mode = FragRandom // byte-wise delivery is kept for the first few hundred bytes (headers, delimiters)
			}
			switch mode {
			case FragByte:
				n = 1
				c.byteReads++
				c.Fired.ByteReads++
			case FragRandom:
				n = 1 + c.sim.Tape.Choose(simrt.KNet, max)
			}
			if n < max {
				c.Fired.ShortReads++
			}
			bcopy(p, c.in[:n])
			c.in = c.in[n:]
			c.log(Ev{Kind: EvRead, Off: c.inOff, N: n})
			c.inOff += n
			return n, nil
		}
		if c.inEnd != nil {
			err := c.inEnd
			if c.inEndOnce {
				c.inEnd = nil
			}
			switch {
			case err == io.EOF:
				c.Fired.EOFs++
			case err == ErrTimeout:
				c.Fired.Timeouts++
			default:
				c.Fired.Resets++
			}
			c.log(Ev{Kind: EvReadErr, Off: c.inOff, Err: err})
			return 0, err
		}
		// block until data, end of input, close or the read deadline
		c.Fired.BlockedReads++
		c.log(Ev{Kind: EvReadBlock, Off: c.inOff})
		w := make(chan struct{})
		c.waiters = append(c.waiters, w)
		if !c.readDL.IsZero() {
			d := time.Until(c.readDL)
			if d <= 0 {
				c.Fired.Timeouts++
				c.log(Ev{Kind: EvReadErr, Off: c.inOff, Err: ErrTimeout})
				return 0, ErrTimeout
			}
			c.sim.TimeSensitive()
			tm := time.NewTimer(d)
			select {
			case <-w:
				tm.Stop()
				simrt.Woken(SiteRead)
			case <-tm.C:
				simrt.Woken(SiteRead)
				c.dropWaiter(w)
				c.Fired.Timeouts++
				c.log(Ev{Kind: EvReadErr, Off: c.inOff, Err: ErrTimeout})
				return 0, ErrTimeout
			}
			continue
		}
		<-w
		simrt.Woken(SiteRead)
	}
}

//go:norace
func (c *Conn) dropWaiter(w chan struct{}) {
	for i, x := range c.waiters {
		if x == w {
			c.waiters = append(c.waiters[:i], c.waiters[i+1:]...)
			return
		}
	}
}

// accept applies the write-side fault plan to one Write/Writev call of total size n; it returns how many
// bytes are accepted and the error.
//
//go:norace
func (c *Conn) accept(n int) (int, error) {
	c.writeCalls++
	if c.Closed {
		c.Fired.WriteAfterClose++
		return 0, closedErr("write")
	}
	if c.FailWriteAt > 0 && (c.writeCalls == c.FailWriteAt || (c.writeCalls > c.FailWriteAt && !c.FailOnce)) {
		c.Fired.WriteErrs++
		k := 0
		if c.FailPartial && n > 1 {
			k = n / 2
		}
		err := c.FailWriteErr
		if err == nil {
			err = ErrReset
		}
		return k, err
	}
	return n, nil
}

//go:norace
func (c *Conn) waitStall(site int) {
	for c.Stalled && !c.Closed {
		c.Fired.WriteStalls++
		w := make(chan struct{})
		c.stallWait = append(c.stallWait, w)
		<-w
		simrt.Woken(site)
	}
}

// Release ends a write stall.
//
//go:norace
func (c *Conn) Release() {
	c.Stalled = false
	for _, w := range c.stallWait {
		close(w)
	}
	c.stallWait = nil
}

//go:norace
func (c *Conn) deliver(b []byte) {
	c.Wire = bappend(c.Wire, b)
	c.Unflushed += len(b)
	if c.Peer != nil && !c.Buffered {
		c.Peer.Feed(b)
	}
}

//go:norace
func (c *Conn) Write(p []byte) (int, error) {
	enter := c.log(Ev{Kind: EvWriteEnter, N: len(p)})
	simrt.Yield(SiteWrite)
	c.waitStall(SiteWrite)
	n, err := c.accept(len(p))
	off := len(c.Wire)
	if n > 0 {
		c.deliver(p[:n])
	}
	if err != nil {
		c.log(Ev{Kind: EvWriteErr, Off: off, N: n, Err: err, Enter: enter})
		return n, err
	}
	c.log(Ev{Kind: EvWrite, Off: off, N: n, Enter: enter})
	return n, nil
}

//go:norace
func (c *Conn) Writev(bufs transport.Buffers) (int64, error) {
	pre := 0
	preSizes := make([]int, len(bufs))
	for i, b := range bufs {
		pre += len(b)
		preSizes[i] = len(b)
	}
	enter := c.log(Ev{Kind: EvWriteEnter, N: pre, Bufs: preSizes})
	simrt.Yield(SiteWritev)
	c.waitStall(SiteWritev)
	// the buffers are read at this instant (a caller that mutates them while the write is in progress gets
	// whatever is there now, as with a real transport)
	total := 0
	sizes := make([]int, len(bufs))
	for i, b := range bufs {
		total += len(b)
		sizes[i] = len(b)
	}
	n, err := c.accept(total)
	off := len(c.Wire)
	left := n
	for _, b := range bufs {
		if left <= 0 {
			break
		}
		k := len(b)
		if k > left {
			k = left
		}
		c.deliver(b[:k])
		left -= k
	}
	if err != nil {
		c.log(Ev{Kind: EvWriteErr, Off: off, N: n, Bufs: sizes, Err: err, Enter: enter})
		return int64(n), err
	}
	c.log(Ev{Kind: EvWritev, Off: off, N: n, Bufs: sizes, Enter: enter})
	return int64(n), nil
}

//go:norace
func (c *Conn) Flush() error {
	simrt.Yield(SiteFlush)
	c.flushCalls++
	if c.Closed {
		c.log(Ev{Kind: EvFlushErr, Err: net.ErrClosed})
		return closedErr("flush")
	}
	if c.FailFlushAt > 0 && (c.flushCalls == c.FailFlushAt || (c.flushCalls > c.FailFlushAt && !c.FailOnce)) {
		c.Fired.FlushErrs++
		err := c.FailFlushErr
		if err == nil {
			err = ErrReset
		}
		c.log(Ev{Kind: EvFlushErr, Err: err})
		return err
	}
	if c.Peer != nil && c.Buffered && c.Unflushed > 0 {
		c.Peer.Feed(c.Wire[len(c.Wire)-c.Unflushed:])
	}
	c.Unflushed = 0
	c.log(Ev{Kind: EvFlush, Off: len(c.Wire)})
	return nil
}

//go:norace
func (c *Conn) Close() error {
	simrt.Yield(SiteClose)
	c.CloseCount++
	c.log(Ev{Kind: EvClose, Off: len(c.Wire), N: c.CloseCount})
	if c.Closed {
		return closedErr("close")
	}
	c.Closed = true
	c.wakeReaders()
	for _, w := range c.stallWait {
		close(w)
	}
	c.stallWait = nil
	if c.Peer != nil && !c.Peer.Closed && c.Peer.inEnd == nil {
		c.Peer.EndInput(io.EOF, false)
	}
	if c.CloseErr != nil {
		c.Fired.CloseErrs++
		return c.CloseErr
	}
	return nil
}

//go:norace
func (c *Conn) LocalAddr() net.Addr { return simAddr("sim-local:" + c.Name) }

//go:norace
func (c *Conn) RemoteAddr() net.Addr { return simAddr("sim-remote:" + c.Name) }

//go:norace
func (c *Conn) SetDeadline(t time.Time) error { simrt.Yield(SiteDeadline); c.readDL = t; return nil }

//go:norace
func (c *Conn) SetReadDeadline(t time.Time) error { simrt.Yield(SiteDeadline); c.readDL = t; return nil }

//go:norace
func (c *Conn) SetWriteDeadline(t time.Time) error { simrt.Yield(SiteDeadline); return nil }

//go:norace
func (c *Conn) RawTransport() interface{} { return c }

// LastWriteSeq / flush accounting helpers for oracles.
//
//go:norace
func (c *Conn) String() string {
	return fmt.Sprintf("conn %s: wire=%d unflushed=%d closed=%v closes=%d", c.Name, len(c.Wire), c.Unflushed, c.Closed, c.CloseCount)
}

var _ transport.Transport = (*Conn)(nil)

// bcopy / bappend: byte loops instead of copy/append, because under -race the compiler routes those through
// runtime.slicecopy, which records the accesses even in //go:norace code (false reports between tasks).
//
//go:norace
func bcopy(dst, src []byte) int {
	n := len(src)
	if len(dst) < n {
		n = len(dst)
	}
	for i := 0; i < n; i++ {
		dst[i] = src[i]
	}
	return n
}

//go:norace
func bappend(dst, src []byte) []byte {
	need := len(dst) + len(src)
	if need > cap(dst) {
		nc := 2*cap(dst) + 64
		if nc < need {
			nc = need
		}
		nb := make([]byte, len(dst), nc)
		for i := range dst {
			nb[i] = dst[i]
		}
		dst = nb
	}
	k := len(dst)
	dst = dst[:need]
	for i := range src {
		dst[k+i] = src[i]
	}
	return dst
}
