package simnet

import (
	"errors"
	"fmt"
	"net"

	"github.com/go-netty/go-netty/transport"
	"github.com/go-netty/go-netty/verifsim/simrt"
)

// Factory implements transport.Factory (scheme "sim").
type Factory struct {
	sim       *simrt.Sim
	Acceptors []*Acceptor
	Conns     []*Conn // every transport ever created by Connect or handed out by Accept
	Clients   []*Conn // transports created by Connect
	Peers     []*Conn // far ends (owned by the harness)

	ConnectErr error // Connect fails with this error
	CloseErr   error // handed to every transport given to the system: its Close closes and reports this error
	ListenErr  error
	ListenFailN int // with ListenErr set: only the first N Listen calls fail (0: all)
	listenCalls int
	Frag       int
	Log        []FEv
}

// FEv is a factory-level event.
type FEv struct {
	Seq  int64
	Kind string // listen, listen-err, connect, connect-err, accept-enter, accept, accept-err, acc-close
	Task int
	Acc  int
	Conn int
}

//go:norace
func NewFactory(sim *simrt.Sim) *Factory { return &Factory{sim: sim} }

//go:norace
func (f *Factory) ev(kind string, acc, conn int) {
	e := FEv{Seq: f.sim.NextEv(), Kind: kind, Task: -1, Acc: acc, Conn: conn}
	if t := simrt.Me(); t != nil {
		e.Task = t.ID
	}
	f.Log = append(f.Log, e)
}

//go:norace
func (f *Factory) Schemes() transport.Schemes { return transport.Schemes{"sim"} }

// newPair creates a connected pair: the near end is given to the system under test, the far end to the harness.
//
//go:norace
func (f *Factory) newPair(name string) (*Conn, *Conn) {
	near := NewConn(f.sim, name)
	far := NewConn(f.sim, name+"-peer")
	near.Frag, far.Frag = f.Frag, f.Frag
	near.Peer, far.Peer = far, near
	near.CloseErr = f.CloseErr
	f.Conns = append(f.Conns, near)
	f.Peers = append(f.Peers, far)
	return near, far
}

// Connect creates a client transport whose far end is kept by the harness (a silent peer unless the harness
// drives it). If an open acceptor listens on the same host, the far end is queued there instead, so that the
// system's own accept loop picks it up.
//
//go:norace
func (f *Factory) Connect(options *transport.Options) (transport.Transport, error) {
	simrt.Yield(SiteConnect)
	if err := f.Schemes().FixScheme(options.Address); err != nil {
		return nil, err
	}
	if f.ConnectErr != nil {
		f.ev("connect-err", -1, -1)
		return nil, f.ConnectErr
	}
	near, far := f.newPair(fmt.Sprintf("c%d", len(f.Conns)))
	f.Clients = append(f.Clients, near)
	f.ev("connect", -1, len(f.Conns)-1)
	for _, a := range f.Acceptors {
		if !a.Closed && a.Addr == options.Address.Host {
			// loop-back: the far end becomes a server-side transport
			f.Peers = f.Peers[:len(f.Peers)-1]
			a.enqueue(far)
			break
		}
	}
	return near, nil
}

//go:norace
func (f *Factory) Listen(options *transport.Options) (transport.Acceptor, error) {
	simrt.Yield(SiteListen)
	if err := f.Schemes().FixScheme(options.Address); err != nil {
		return nil, err
	}
	if f.ListenErr != nil && (f.ListenFailN == 0 || f.listenCalls < f.ListenFailN) {
		f.listenCalls++
		f.ev("listen-err", -1, -1)
		return nil, f.ListenErr
	}
	a := &Acceptor{f: f, ID: len(f.Acceptors), Addr: options.Address.Host}
	f.Acceptors = append(f.Acceptors, a)
	f.ev("listen", a.ID, -1)
	return a, nil
}

// Dial is the harness-side client: it queues a new server-side transport at the open acceptor for host and
// returns the far end (nil if nobody listens: connection refused).
//
//go:norace
func (f *Factory) Dial(host string) *Conn {
	for _, a := range f.Acceptors {
		if !a.Closed && a.Addr == host {
			near, far := f.newPair(fmt.Sprintf("s%d", len(f.Conns)))
			f.Conns = f.Conns[:len(f.Conns)-1] // counted when Accept hands it out
			a.enqueue(near)
			return far
		}
	}
	return nil
}

// Acceptor implements transport.Acceptor.
type Acceptor struct {
	f           *Factory
	ID          int
	Addr        string
	backlog     []*Conn
	waiters     []chan struct{}
	Closed      bool
	CloseCount  int
	Outstanding int // Accept calls currently blocked or in progress
	Accepted    int
	FailAt      int // the k-th Accept fails with FailErr (transient error)
	FailErr     error
	calls       int
}

//go:norace
func (a *Acceptor) enqueue(c *Conn) {
	a.backlog = append(a.backlog, c)
	for _, w := range a.waiters {
		close(w)
	}
	a.waiters = nil
}

// Backlog returns the connections queued but not yet accepted.
//
//go:norace
func (a *Acceptor) Backlog() []*Conn { return a.backlog }

var errAcceptorClosed = &net.OpError{Op: "accept", Net: "sim", Err: net.ErrClosed}

//go:norace
func (a *Acceptor) Accept() (transport.Transport, error) {
	a.Outstanding++
	a.f.ev("accept-enter", a.ID, -1)
	defer func() { a.Outstanding-- }()
	simrt.Yield(SiteAccept)
	a.calls++
	for {
		if a.Closed {
			a.f.ev("accept-err", a.ID, -1)
			return nil, errAcceptorClosed
		}
		if a.FailAt > 0 && a.calls == a.FailAt {
			a.f.ev("accept-err", a.ID, -1)
			err := a.FailErr
			if err == nil {
				err = errors.New("accept: too many open files (simulated)")
			}
			return nil, err
		}
		if len(a.backlog) > 0 {
			c := a.backlog[0]
			a.backlog = a.backlog[1:]
			a.Accepted++
			a.f.Conns = append(a.f.Conns, c)
			a.f.ev("accept", a.ID, len(a.f.Conns)-1)
			return c, nil
		}
		w := make(chan struct{})
		a.waiters = append(a.waiters, w)
		<-w
		simrt.Woken(SiteAccept)
	}
}

//go:norace
func (a *Acceptor) Close() error {
	simrt.Yield(SiteAccClose)
	a.CloseCount++
	a.f.ev("acc-close", a.ID, -1)
	if a.Closed {
		return errAcceptorClosed
	}
	a.Closed = true
	for _, w := range a.waiters {
		close(w)
	}
	a.waiters = nil
	// connections still in the backlog are reset, as a real listener close does
	for _, c := range a.backlog {
		if c.Peer != nil {
			c.Peer.EndInput(ErrReset, false)
		}
	}
	return nil
}
