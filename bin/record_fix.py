#!/usr/bin/env python3
"""record_fix.py <property> <commit> <what failed>: appends a 'fixed:' entry to known_findings.json"""
import json, sys, os
p = os.path.join(os.path.dirname(os.path.dirname(os.path.abspath(__file__))), "known_findings.json")
d = json.load(open(p))
d["fixed"].append("fixed: property=%s %s %s" % (sys.argv[1], sys.argv[2], sys.argv[3]))
json.dump(d, open(p, "w"), indent=1, ensure_ascii=False)
