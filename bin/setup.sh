#!/bin/sh
# Run once after a fresh restore, offline: builds the instrumenter, warms the go1.26.8 build cache (plain and
# race standard library) by building both simulation binaries from /repo's working tree, and runs the
# instrumenter self-test (the repository's own tests must pass on the instrumented copy with the pass-through
# runtime).
set -e
cd "$(dirname "$0")/.."
export GOFLAGS=-mod=mod GOPROXY=off GOSUMDB=off GOTOOLCHAIN=local
go1.26.8 build -o bin/verif-instr ./cmd/verif-instr
bin/verif build
bin/verif build --race
bin/verif selftest instr
