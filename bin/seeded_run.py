#!/usr/bin/env python3
"""Re-evaluates seeded changes (all, or the ids given) and writes seeded/<id>/meta.json and seeded/INDEX.md."""
import json, os, subprocess, sys
V = os.path.dirname(os.path.dirname(os.path.abspath(__file__)))
sys.path.insert(0, os.path.join(V, "bin"))
from seeded_table import SEEDED
ids = sys.argv[1:] or sorted(SEEDED)
for i in ids:
    prop, pkg, run, checks, race, what = SEEDED[i][:6]
    base = SEEDED[i][6] if len(SEEDED[i]) > 6 else "HEAD"
    d = os.path.join(V, "seeded", i)
    cmd = [os.path.join(V, "bin", "eval_seeded.py"), d, "--props", ",".join(checks), "--demo-pkg", pkg, "--demo-file", os.path.join(d, "demo_test.go.txt"), "--demo-run", run]
    if race:
        cmd.append("--demo-race")
    if base != "HEAD":
        cmd += ["--base", base]
    subprocess.run(cmd, stdout=subprocess.DEVNULL)
    ev = json.load(open(os.path.join(d, "eval.json")))
    meta = {
        "id": i, "breaks_property": prop, "what_and_what_it_needs": what, "applies_to_repo_revision": base,
        "files": {"patch": "patch.diff", "demonstration": "demo_test.go.txt (copy as *_test.go into package dir '%s', go test -run '%s'%s)" % (pkg, run, " -race" if race else ""), "author_notes": "notes.md"},
        "confirmed": {k: ev.get(k) for k in ("patch_applies", "compiles", "suite_passes_with_change", "demo_unchanged_tree", "demo_with_change")},
        "what_was_run": ["git worktree of /repo %s + git apply patch.diff" % base, "go build ./...", "go test -vet=off -count=1 ./... (private network namespace)", ev.get("demo_cmd", ""),
                         "bin/verif check <P> --tier quick with VERIF_REPO=<patched worktree> for P in %s" % checks],
        "checks": {p: {"exit": r["exit"], "signatures": r["signatures"][:3]} for p, r in ev.get("checks", {}).items()},
        "caught_by": ev.get("caught_by", []),
        "evaluated_at": ev.get("at"),
    }
    json.dump(meta, open(os.path.join(d, "meta.json"), "w"), indent=1)
    os.remove(os.path.join(d, "eval.json"))
    print(i, meta["confirmed"], "caught_by", meta["caught_by"], flush=True)
# index
rows = []
for i in sorted(os.listdir(os.path.join(V, "seeded"))):
    mp = os.path.join(V, "seeded", i, "meta.json")
    if os.path.exists(mp):
        m = json.load(open(mp))
        c = m["confirmed"]
        ok = c.get("patch_applies") and c.get("compiles") and c.get("suite_passes_with_change") and c.get("demo_unchanged_tree") == "pass" and c.get("demo_with_change") == "FAIL"
        sig = ""
        for p in m["caught_by"]:
            s = m["checks"][p]["signatures"]
            sig = s[0] if s else ""
            break
        rows.append("| %s | %s | %s | %s | %s | %s |" % (i, m["breaks_property"], "yes" if ok else "NO: %s" % c, ", ".join(m["caught_by"]) or "**not caught**", sig.replace("|", "/"), m["what_and_what_it_needs"].replace("|", "/")))
open(os.path.join(V, "seeded", "INDEX.md"), "w").write(
    "# Seeded changes\n\nEach directory holds `patch.diff` (apply with `git -C /repo apply`), the author's demonstration (`demo_test.go.txt`), the author's `notes.md` and `meta.json` (what was confirmed, what was run, which checks report it). "
    "'confirmed' = patch applies, tree compiles, the repository's 107 tests pass with it, the demonstration passes on the unchanged tree and fails with the change.\n\n"
    "| id | property | confirmed | caught by (quick tier) | first signature | change and what it needs |\n|---|---|---|---|---|---|\n" + "\n".join(rows) + "\n")
print("INDEX.md written")
