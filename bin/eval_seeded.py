#!/usr/bin/env python3
"""Evaluate one seeded change: apply its patch to a scratch worktree of /repo, make sure it compiles and the
repository's suite passes, optionally run its demonstration, then run the given checks against it.

  eval_seeded.py <dir with patch.diff> [--props C01,C02|all] [--demo-pkg DIR --demo-file FILE [--demo-run RE] [--demo-count N] [--demo-race]]
                 [--tier quick] [--skip-suite]
Writes <dir>/eval.json. Evidence and replays of these runs go to a scratch directory, never to /verif/evidence.
"""
import argparse, json, os, shutil, subprocess, sys, tempfile, time
V = os.path.dirname(os.path.dirname(os.path.abspath(__file__)))
sys.path.insert(0, os.path.join(V, "bin"))
from verif_props import PROPS
ENV = dict(os.environ, GOFLAGS="-mod=mod", GOPROXY="off", GOSUMDB="off")

def sh(cmd, cwd=None, timeout=3600, env=ENV):
    r = subprocess.run(cmd, cwd=cwd, env=env, stdout=subprocess.PIPE, stderr=subprocess.STDOUT, text=True, timeout=timeout)
    return r.returncode, r.stdout

ap = argparse.ArgumentParser()
ap.add_argument("dir")
ap.add_argument("--props", default="")
ap.add_argument("--demo-pkg")
ap.add_argument("--demo-file")
ap.add_argument("--demo-run", default=".")
ap.add_argument("--demo-count", type=int, default=1)
ap.add_argument("--demo-race", action="store_true")
ap.add_argument("--tier", default="quick")
ap.add_argument("--skip-suite", action="store_true")
ap.add_argument("--runs", type=int)
ap.add_argument("--base", default="HEAD", help="revision of /repo the patch was written against")
a = ap.parse_args()
d = os.path.abspath(a.dir)
name = os.path.basename(d)
wt = tempfile.mkdtemp(prefix="wt_eval_")
os.rmdir(wt)
res = {"name": name, "at": time.strftime("%Y-%m-%d %H:%M:%S"), "base": a.base}
try:
    # base "REV" or "REV;path@oldrev[;path@oldrev...]": the tree of REV with the named files taken from an older revision
    # (for a patch written against a file that a later fix: commit rewrote; only used when none of the checks run
    # below looks at what that fix repaired)
    parts = a.base.split(";")
    rc, out = sh(["git", "-C", "/repo", "worktree", "add", "-q", "--detach", wt, parts[0]])
    assert rc == 0, out
    for spec in parts[1:]:
        path, rev = spec.split("@")
        rc, out = sh(["git", "checkout", rev, "--", path], cwd=wt)
        assert rc == 0, out
        rc, out = sh(["git", "reset", "-q"], cwd=wt)
    if a.demo_file:
        # demonstration on the unchanged tree first
        dst = os.path.join(wt, a.demo_pkg, "zz_seeded_demo_test.go")
        shutil.copy(a.demo_file, dst)
        cmd = ["go", "test", "-vet=off", "-count=%d" % a.demo_count, "-run", a.demo_run] + (["-race"] if a.demo_race else []) + ["./" + a.demo_pkg]
        rc, out = sh(cmd, cwd=wt)
        res["demo_unchanged_tree"] = "pass" if rc == 0 else "FAIL"
        res["demo_cmd"] = " ".join(cmd)
        if rc != 0:
            res["demo_unchanged_output"] = out[-1500:]
        os.remove(dst)
    rc, out = sh(["git", "apply", os.path.join(d, "patch.diff")], cwd=wt)
    res["patch_applies"] = rc == 0
    if rc != 0:
        res["apply_output"] = out
        raise SystemExit
    rc, out = sh(["go", "build", "./..."], cwd=wt)
    res["compiles"] = rc == 0
    if not a.skip_suite:
        # the suite binds fixed ports (9526/9527): run it in a private network namespace so that concurrent suites
        # (sub-agents, other evaluations) cannot make it fail with "address already in use"
        rc, out = sh(["unshare", "-n", "sh", "-c", "ip link set lo up && go test -vet=off -count=1 ./..."], cwd=wt)
        if rc != 0 and "address already in use" in out:
            rc, out = sh(["go", "test", "-vet=off", "-count=1", "./..."], cwd=wt)
        res["suite_passes_with_change"] = rc == 0
        if rc != 0:
            res["suite_output"] = out[-2000:]
    if a.demo_file:
        dst = os.path.join(wt, a.demo_pkg, "zz_seeded_demo_test.go")
        shutil.copy(a.demo_file, dst)
        rc, out = sh(cmd, cwd=wt)
        res["demo_with_change"] = "pass" if rc == 0 else "FAIL"
        res["demo_with_change_output"] = out[-1200:]
        os.remove(dst)
    props = sorted(PROPS) if a.props == "all" else [p for p in a.props.split(",") if p]
    outdir = tempfile.mkdtemp(prefix="verif-evalout-")
    res["checks"] = {}
    for p in props:
        t0 = time.time()
        cmd = [os.path.join(V, "bin", "verif"), "check", p, "--tier", a.tier] + (["--runs", str(a.runs)] if a.runs else [])
        rc, out = sh(cmd, cwd=V, env=dict(ENV, VERIF_REPO=wt, VERIF_OUT=outdir))
        viol = [l for l in out.splitlines() if l.startswith("VIOLATION") or l.startswith("  C") or l.startswith("INFRA")]
        sigs = [l.strip() for l in out.splitlines() if l.startswith("  C")]
        res["checks"][p] = {"exit": rc, "wall_s": round(time.time() - t0, 1), "signatures": sigs[:6], "infra": [l for l in out.splitlines() if l.startswith("INFRA")][:3]}
        print("%s: %s exit=%d %.0fs %s" % (name, p, rc, time.time() - t0, "; ".join(sigs[:3])), flush=True)
    res["caught_by"] = [p for p, r in res["checks"].items() if r["exit"] == 1]
    res["infra_trouble"] = {p: r["infra"] for p, r in res["checks"].items() if r["exit"] not in (0, 1)}
    shutil.rmtree(outdir, ignore_errors=True)
finally:
    subprocess.run(["git", "-C", "/repo", "worktree", "remove", "--force", wt], stdout=subprocess.DEVNULL, stderr=subprocess.DEVNULL)
    shutil.rmtree(wt, ignore_errors=True)
    json.dump(res, open(os.path.join(d, "eval.json"), "w"), indent=1)
    print(json.dumps({k: v for k, v in res.items() if k != "checks" and not k.endswith("output")}))
