#!/usr/bin/env python3
"""Regenerates /verif/MANIFEST.json from bin/verif_props.py (claimed checks) and the not-applicable table."""
import json, os, sys
V = os.path.dirname(os.path.dirname(os.path.abspath(__file__)))
sys.path.insert(0, os.path.join(V, "bin"))
from verif_props import PROPS, NOT_APPLICABLE
ids = [json.loads(l)["id"] for l in open(os.path.join(V, "properties.jsonl"))]
checks = []
for p in ids:
    if p not in PROPS:
        continue
    P = PROPS[p]
    checks.append({
        "property_id": p,
        "quick_cmd": "bin/verif check %s --tier quick" % p,
        "thorough_cmd": "bin/verif check %s --tier thorough" % p,
        "evidence_file": "evidence/%s.json" % p,
        "replay_cmd_template": "bin/verif replay {path}",
        "engine": "detsim",
        "level_claimed": {"category": P.get("level", "exploration"), "text": P["text"], "design_ref": "DESIGN.md section 3, " + p},
        "level_note": P["note"],
        "technique": P.get("technique", "deterministic simulation with fault injection: seeded run-token scheduler in a synctest bubble over the instrumented real code, simulated transport, history oracles, ddmin-minimised replay tapes"),
    })
na = [{"property_id": p, "reason": NOT_APPLICABLE[p]} for p in ids if p not in PROPS]
missing = [p for p in ids if p not in PROPS and p not in NOT_APPLICABLE]
assert not missing, missing
m = {
    "version": 1,
    "setup_cmd": "bin/setup.sh",
    "hooks": {"guard": "none", "enable": "no hooks live in /repo: every check copies /repo's working tree to a scratch module and instruments the copy (cmd/verif-instr) before building it with go1.26.8",
              "baseline_off_cmd": "cd /repo && go test -mod=mod -vet=off -count=1 -timeout 25m ./...", "source_commits": [], "add_only": True},
    "engines": [{"name": "detsim", "path": "bin/verif", "serves_properties": [c["property_id"] for c in checks],
                 "kind_free_text": "deterministic simulation: AST instrumenter + run-token scheduler inside testing/synctest + simulated network + choice tape (seeded search, replay, ddmin)"}],
    "checks": checks,
    "not_applicable": na,
    "notes": "Fixes of genuine defects are unguarded 'fix:' commits in /repo, listed in known_findings.json. VERIF_SEED selects the batch seed; exit 2 + 'INFRA:' lines mean infrastructure trouble, never a violation.",
}
json.dump(m, open(os.path.join(V, "MANIFEST.json"), "w"), indent=1)
print("MANIFEST.json: %d checks, %d not applicable" % (len(checks), len(na)))
