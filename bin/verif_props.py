# Per-property tier parameters and manifest/evidence texts. Run counts and budgets are targets; every count in
# the evidence is measured by the run itself.


def T(qr, qb, tr, tb):
    return {"quick": {"runs": qr, "budget": qb}, "thorough": {"runs": tr, "budget": tb}}


NOTE = ("Trusted base: the AST instrumenter (cmd/verif-instr; self-tested by running the repository's tests on the instrumented copy), "
        "the run-token scheduler + testing/synctest of go1.26.8, the simulated transport (sim/simnet) and the oracle code. "
        "Preemption only at instrumented visible operations; sampling of schedules, not enumeration.")

PROPS = {
    "C01": dict(T(80000, 60, 1500000, 900),
                text="Seeded exploration of writer/sender interleavings on the real channel code: every run parses the bytes handed to the simulated transport back into the unique payloads of the calls and checks whole/unmodified/at-most-once/per-writer order/real-time order/no bytes from failed calls, and that every transport write ends on a payload boundary. Catches what one-writer tests cannot: losses, duplicates, reorderings and torn payloads that need specific preemptions.",
                note=NOTE,
                rule="Scenario: 1-4 writer tasks x 1-5 calls over the five low-level entry points, payload sizes 0..70001, async queue sizes {1,2,3,8,64} in both wait modes or the synchronous channel; transport accepts everything."),
    "C02": dict(T(100000, 60, 1500000, 900),
                text="Bounded liveness judged at simulator quiescence (no runnable task and no timer for a fake hour): every accepted payload is on the wire and flushed, every call returned. The lost-wake-up window between the sender's last queue check and its release is reached by preempting at the instrumented atomics.",
                note=NOTE,
                rule="Scenario: writers finish, nothing else touches the channel; judged at quiescence."),
    "C06": dict(T(100000, 60, 1500000, 900),
                text="Seeded exploration including stall decisions (fake time passes while a task is descheduled): all payloads accepted before Close was invoked must be written and flushed before the transport close event, and no close event may fall inside a transport write of the sender. Found the pinned-tree defect (fixed in /repo).",
                note=NOTE + " Bounded-wait channels are exempted when Close really waited its whole grace period (>= 1 s of fake time), as the property states.",
                rule="Scenario: all writers return, then one Close (user task or handler); stall decisions (1ms..1.1s of fake time while tasks are runnable) enabled."),
    "C10": dict(T(60000, 60, 1000000, 900),
                text="Callers poison their buffers immediately after each call returns while scribbler tasks take, poison and return pooled buffers of every size class; the simulated pool prefers handing a just-recycled buffer to somebody else. The wire must still parse into the payloads as they were at call time.",
                note=NOTE + " sync.Pool is replaced by a deterministic pool whose hit/miss/which-object decisions come from the tape.",
                rule="Scenario: callers overwrite their buffers right after each call; 0-2 scribbler tasks take, poison and return pooled buffers of every size class."),
    "C11": dict(T(80000, 60, 1000000, 900),
                text="After a Close call (nil, sentinel or wrapped error; from a task or from a handler) has returned, 1-3 writes over all seven entry points must return a non-nil error with n == 0 and nothing may reach the transport; select orders come from the tape, so the 'closed' vs 'queue has room' choice is explored deliberately. Found the pinned-tree defects (fixed in /repo).",
                note=NOTE,
                rule="Scenario: Close(nil|sentinel|wrapped) from a task or a handler returns, then 1-3 writes over all seven entry points; optional writers overlapping the Close."),
    "C18": dict(T(80000, 60, 1000000, 900),
                text="Writers against a sender that is stalled inside the transport (released later on the fake clock) or merely slow: non-blocking mode must never park (the scheduler observes blocked tasks), queue-full only when the queue can have been full, blocking mode returns only success / context error / close error and transmits nothing on error, accepted-minus-sent never exceeds queue size + batch.",
                note=NOTE + " The queue-full and backlog clauses are necessary conditions computed from call and transport events (sound, not exact).",
                rule="Scenario: sender stalled in the transport or slow; plain and Ctx entry points with background / cancelled / expiring contexts; optional concurrent Close."),
}

PROPS["C05"] = dict(T(100000, 60, 1000000, 900),
    text="1-4 concurrent closers of seven kinds (user task, handler on a user event, handler on an inbound message, transport read failure, transport write failure, holder.CloseAll, Bootstrap.Shutdown) with distinct errors against in-flight reads and writes on a channel created through the real Bootstrap.Connect: active once and complete before Connect returns and before the first read, reads strictly sequential, transport closed and inactive delivered exactly once, inactive carries the argument of the Close call whose task closed the transport, IsActive false after any Close returned, context cancelled after the effective Close returned, read loop gone at quiescence.",
    note=NOTE,
    rule="Scenario: real Bootstrap + channelHolder over the simulated factory; closers drawn from seven kinds; 0-2 writers; 0-2 inbound chunks.")

PROPS["C12"] = dict(T(40000, 90, 300000, 1200), race=True,
    text="The same scenario families as the behavioural checks (channel writers/closers/pokers, the C05 closer mix on a real Bootstrap, bootstrap listen/connect/shutdown histories, idle-handler timers, pool scribblers) run in a race-instrumented build under the deterministic scheduler, whose own hand-offs are hidden from ThreadSanitizer (runtime.RaceDisable around park/resume, //go:norace runtime), so two accesses with no program synchronisation between them are reported however far apart they ran. Only reports with at least one access inside the repository count; the schedule that produced a report replays exactly.",
    note=NOTE + " Happens-before detection: a race is reported only in schedules where both accesses actually execute; sync.Pool/sync.Map replacements add (over-approximated) happens-before edges like the originals.",
    technique="deterministic simulation (seeded run-token scheduler, instrumented real code, simulated transport) with ThreadSanitizer as the oracle in a -race build",
    rule="Scenario families borrowed from C01/C05/C11/C13/C20 with their functional oracles muted; violation = race report with an access in repository code, signature = the pair of functions.")

PROPS["C13"] = dict(T(100000, 60, 1000000, 900),
    text="Histories of 0-3 listeners (Async, Sync in a task, or never started; optional Listener.Close), 0-3 Bootstrap.Connect calls (loop-back to an own listener or to a silent peer), 0-2 external dials and one Shutdown placed anywhere by the schedule, on a real Bootstrap + channelHolder over the simulated factory. At quiescence: context cancelled, every acceptor ever created is closed with no Accept outstanding, every started accept loop ended (with the server-closed error unless the listener was closed explicitly), every transport ever created is closed exactly once with inactive delivered exactly once, no executor task is left blocked. Found the pinned-tree defect (listener started after/while Shutdown keeps a live acceptor).",
    note=NOTE,
    rule="Scenario: real Bootstrap + holder; listeners/connects/dials/Shutdown as concurrent tasks; peers stay silent so that only Shutdown can end a channel.")

PROPS["C20"] = dict(T(60000, 60, 800000, 900),
    text="Real ReadIdleHandler/WriteIdleHandler (1s/1.5s/3s) between two probes on a real channel; a peer and a writer produce messages at fake-clock gaps chosen around the expiry (d-1ms, d, d+1ms, bursts, silence up to 3.5d); Close after a final silence; optional panicking event handler; optional stall decisions. Timer callbacks run as scheduled tasks, so Close can land while a callback is parked between its expiry check and Trigger. Oracle: every idle event is at least d after activation and after every message that certainly passed the handler before the timer fired; events keep coming during silence (stall-free runs); at most the in-flight callback fires after inactive and the run reaches quiescence (timer released); a panicking event handler yields an exception delivery and no dead timer task.",
    note=NOTE + " Timing clauses use lower/upper bounds of the handler's internal time stamps taken by probes on either side of it, so they are necessary conditions (sound).",
    rule="Scenario: idle handlers on the synctest fake clock; message gaps relative to the idle time; Close after silence; panic injection on the k-th idle event.")

PROPS["C07"] = dict(T(80000, 60, 1000000, 900), level="fault_enumeration",
    text="One fault plan per run, drawn from the product of injection points (handler position x event kind x entry point: read loop, Channel.Write, Channel.Trigger, ctx.Write, ctx.Trigger, idle-timer callback) x panic value kind (error, string, runtime error, timeout and non-timeout net.Error) x exception-handler policies (forward/swallow/close per handler) x channel state (open, closing, closed), or a transport Write/Writev/Flush/Read failing at the k-th call; schedules sampled per plan. Oracle: no panic escapes into the calling task or kills an executor/timer task; while open, the exception visits the exception handlers once each in pipeline order up to the first that does not forward, carrying the panic value itself when it is an error; unconsumed => inactive with that value; sender write failure and unswallowed read failure => inactive with the transport error; a consumed fault leaves the channel usable (write + read round trip).",
    note=NOTE + " Exception handlers that themselves panic are outside the property and not generated. The per-point counters in the evidence show which injection points were hit.",
    technique="deterministic simulation with fault injection: seeded fault plans (handler panics, transport errors) x seeded schedules on the instrumented real code",
    rule="Scenario: 1-4 probe handlers with per-handler exception policy; one injected panic or transport failure; distinct = distinct (fault plan, schedule).")

PROPS["C09"] = dict(T(60000, 60, 1000000, 900),
    text="2-4 writer tasks send 1-3 messages each through Channel.Write or ctx.Write on one channel, all messages of a run using one carrier (what reaches the head: []byte, [][]byte, *bytes.Buffer, single-write io.WriterTo, single-read io.Reader, multi-write io.WriterTo, multi-read io.Reader, string) bare or below a shipped codec (delimiter, delimiter+text, length-field, varint), sizes below/at/above the 1024-byte streaming chunk, sync and queued channels. The wire must be a concatenation of whole reference encodings (harness' own encoder). Multi-write carriers violate this by construction on the pinned tree: recorded as known findings per carrier class; every other class is fully checked.",
    note=NOTE + " Known findings (known_findings.json): messages that the head streams as several independent writes (io.Reader needing several reads or > 1024 bytes, chunking io.WriterTo, and everything the delimiter codec turns into a MultiReader, including the README pipeline delimiter+text).",
    rule="Scenario: concurrent Channel.Write/ctx.Write of uniquely identifiable messages; violation class = pipeline + carrier + sync/async.")

PROPS["C14"] = dict(T(40000, 60, 600000, 900),
    text="One writer sends 1-4 messages through Channel.Write on sync and queued channels, carriers []byte, [][]byte (with empty elements), *bytes.Buffer, single-write io.WriterTo, chunk-buffer-reusing io.WriterTo, io.Reader with tape-driven short reads / zero-length reads / data-with-EOF, sizes 0..70001, plus unsupported types (int, struct, nil); the background sender interleaves with the streaming loop. Transport bytes must equal the concatenated contents; an unsupported type raises exactly one exception and transmits nothing. The conversion helpers (ToBytes, ToReader, CountOf, ByteReader, StealBytes) are evaluated on fresh copies of the same carriers against reference conversions; that clause has no schedule in it and is reported separately (helper_evaluations). Found the StealBytes defect (fixed in /repo).",
    note=NOTE + " The helper clause is input-driven (no schedule, clock or fault enters); only the transmission clause is decided by simulation proper.",
    rule="Scenario: single writer, message carriers and reader behaviours from the tape; distinct = distinct (carrier plan, schedule).")

PROPS["C17"] = dict(T(80000, 60, 1000000, 900),
    text="transport.NewTransport over a simulated net.Conn for the four variants x buffer sizes {0,1,7,16,64,4096}: a writer task issues a seeded sequence of Write/Writev/Flush with payload sizes around the buffer sizes while a peer feeds inbound chunks that a reader task pulls through the wrapper with varying buffer sizes and tape-driven short reads. After every Flush the peer has received exactly the bytes written so far; at all times what the peer has is a prefix of what was written in call order; Read yields exactly the peer's bytes.",
    note=NOTE + " Nothing is asserted about bytes still buffered without a Flush (the property speaks only of what holds once Flush has returned).",
    rule="Scenario: one writer task, one reader task, one peer task on one wrapper; distinct = distinct (variant, op sequence, fragmentation, schedule).")
PROPS["C04"] = dict(T(20000, 60, 800000, 900),
    text="An encoder channel and a decoder channel joined by the simulated connection (or, for decoder configurations the shipped encoder cannot produce, a peer feeding the harness' reference wire in tape-chosen pieces): length-field 1/2/4/8 x both byte orders x strip counts, stand-alone prepender with its matching decoder, offset/adjustment configurations, varint, delimiter, fixed length; 1-8 payloads of sizes around 255/256, 65535/65536, the configured maximum, pool classes; carriers []byte, *bytes.Buffer, bytes.Reader, string, fragmenting reader; the decoder reads through byte-wise / random / mixed fragmentation while the encoder is still writing, so it blocks mid-header and mid-body. Oracle: every encode call either raises and emits nothing or emits exactly the reference encoding; delivered frames equal the reference decode in order, one per frame, and the stream offset after each frame equals the frame end.",
    note=NOTE + " The harness' reference encoder/decoder (sim/harness/frames.go) is written independently of the codecs. Payload values are generated input; what simulation decides is the fragmentation/blocking/stream-position half.",
    rule="Scenario: codec configuration, payload sizes/carriers, feed pieces and read fragmentation from the tape.")

PROPS["C08"] = dict(T(40000, 60, 800000, 900), level="fault_enumeration",
    text="One decoder configuration per run; a peer feeds a byte stream in tape-chosen pieces - valid frames cut at a tape-chosen point (frame boundary, inside a header, right after a header, inside a body), random bytes, or valid frames with one mutated header (maximal / just-over-maximum / zero / sign-bit length fields, over-long varints, missing delimiter) - and then ends the stream (EOF, reset, or a timeout followed by EOF) under whole / byte-wise / random read fragmentation. A strict sink below the decoder reads every delivered frame to its end, raising read errors like the shipped message codecs do. Oracle: every frame delivered as complete is, in order, one the harness' reference decoder also finds in the bytes actually received and respects the maximum/fixed size; deliveries do not continue after the stream ended; exceptions are never runtime faults; at quiescence the channel is closed.",
    note=NOTE + " 'Complete' is judged by a sink that reads each lazy frame reader to its end; a frame whose reader reports an error is not counted as delivered.",
    technique="deterministic simulation with fault injection: seeded stream corruption, stream end points (crash points) and read fragmentation against a reference decoder",
    rule="Scenario: decoder configuration x stream construction x cut point x end kind x fragmentation, all from the tape.")

PROPS["C16"] = dict(T(16000, 60, 600000, 900),
    text="Text and JSON codecs on top of a frame codec (length-field, varint, delimiter) on an encoder channel joined to a decoder channel, or with a peer injecting reference-framed frames (truncated objects, non-object top levels, a valid object followed by blanks/garbage/a second object inside the same frame, frames larger than encoding/json's read buffer) in tape-chosen pieces under byte-wise/random read fragmentation. Both codecs consume a lazy frame reader over the transport, so how much of a frame is pulled depends on fragmentation. Oracle: received sequence equals the sent sequence (canonical JSON, exact numbers with UseNumber), a frame that does not begin with a complete valid object raises and delivers nothing, and after every delivered frame the stream position is at the frame end (the following frames decode correctly).",
    note=NOTE + " Value equality of encode/decode is input-driven (generated strings and trees); the stream-position and rejection clauses are what fragmentation and interleaving decide.",
    rule="Scenario: frame codec x format codec x generated values x malformed-frame injection x fragmentation from the tape.")

PROPS["C15"] = dict(T(40000, 60, 600000, 900),
    text="Real xhttp.ServerCodec + xhttp.Handler on a sync or queued channel; a peer sends 1-5 requests (GET/POST/PUT, short and long targets, HTTP/1.0 and 1.1, Connection close/keep-alive/absent, bodies absent / Content-Length / chunked) pipelined or one by one in tape-chosen pieces under read fragmentation; the http.Handler runs a seeded program per request (reads none/half/all of the body; explicit Content-Length, chunked or neither; status; 0-3 writes of sizes around the 2048-byte buffer; explicit Flush never / after the first write / at the end). Response bytes race with the background sender and with the codec's close decision. Oracle: handler invocations equal the requests to be served (method, target, id header, body) in order, once each; net/http.ReadResponse reads back exactly one response per request with the handler's status, header and body; the connection is closed iff a request asked for it or a response is not self-delimiting, and never with unflushed response bytes.",
    note=NOTE + " Requests after the first connection-closing exchange are not expected to be served.",
    rule="Scenario: request sequence x handler programs x pipelining x fragmentation from the tape.")

NOT_APPLICABLE = {
    "C03": "Pipeline order and routing are pure functions of the build program and the event: the handler list is immutable after build and traversed by whichever goroutine delivers the event; no schedule, clock, fault or I/O behaviour enters. Simulation would only be relabelled input generation (DESIGN.md section 3, C03).",
    "C19": "pool.Pool adds no concurrency, time or I/O of its own: shard choice is arithmetic on sizes, mutual exclusion is entirely sync.Pool's, which the simulator has to replace by a stub, so simulated concurrent use would exercise the stub and not the repository (DESIGN.md section 3, C19).",
}
for _p in []:
    NOT_APPLICABLE.setdefault(_p, "check under construction in this session (planned as applicable, DESIGN.md section 3); not claimed until it runs clean")
