# Per-property tier parameters and evidence texts. Runs/budgets are targets; every count in the evidence is measured.

def T(qr, qb, tr, tb):
    return {"quick": {"runs": qr, "budget": qb}, "thorough": {"runs": tr, "budget": tb}}

PROPS = {
    "C01": dict(T(24000, 40, 1500000, 900), rule="Scenario: 1-4 writer tasks x 1-5 calls over the five low-level entry points, payload sizes 0..70001, async queue sizes {1,2,3,8,64} in both wait modes or the synchronous channel; transport accepts everything."),
    "C02": dict(T(24000, 40, 1500000, 900), rule="Scenario: writers finish, nothing else touches the channel; judged at quiescence (no runnable task, no timer for one fake hour)."),
    "C06": dict(T(24000, 40, 1500000, 900), rule="Scenario: all writers return, then one Close (user task or handler); stall decisions (1ms..1.1s of fake time while tasks are runnable) enabled."),
    "C10": dict(T(16000, 40, 1000000, 900), rule="Scenario: callers overwrite their buffers right after each call; 0-2 scribbler tasks take, poison and return pooled buffers of every size class."),
    "C11": dict(T(16000, 40, 1000000, 900), rule="Scenario: Close(nil|sentinel|wrapped) from a task or a handler returns, then 1-3 writes over all seven entry points."),
    "C18": dict(T(16000, 40, 1000000, 900), rule="Scenario: sender stalled in the transport (released later on the fake clock) or slow; plain and Ctx entry points with background / cancelled / expiring contexts; optional concurrent Close."),
}
