module verif

go 1.18
