// verif-instr rewrites the non-test Go files of a scratch copy of the repository so that every visible
// concurrency operation goes through the simulation runtime (DESIGN.md 1.1). Standard library only.
//
//	verif-instr -root <scratch module root> -simrt <import path of simrt> -sitesout <file.go>
//
// Exit 2 on anything it cannot rewrite soundly.
package main

import (
	"bytes"
	"flag"
	"fmt"
	"go/ast"
	"go/format"
	"go/importer"
	"go/parser"
	"go/token"
	"go/types"
	"os"
	"path/filepath"
	"reflect"
	"sort"
	"strconv"
	"strings"
)

const siteBase = 100

var (
	root     = flag.String("root", "", "module root of the scratch copy")
	simrtImp = flag.String("simrt", "github.com/go-netty/go-netty/verifsim/simrt", "import path of simrt")
	sitesOut = flag.String("sitesout", "", "generated Go file with the site table")
	skipDir  = flag.String("skip", "verifsim", "directory (relative to root) not to instrument")
	verbose  = flag.Bool("v", false, "print statistics")
)

func die(format string, args ...interface{}) {
	fmt.Fprintf(os.Stderr, "INFRA: verif-instr: "+format+"\n", args...)
	os.Exit(2)
}

type inst struct {
	fset  *token.FileSet
	info  *types.Info
	sites *[]string
	used  bool
	stats map[string]int
	tmp   int
}

func (in *inst) site(n ast.Node, kind string) ast.Expr {
	p := in.fset.Position(n.Pos())
	rel, err := filepath.Rel(*root, p.Filename)
	if err != nil {
		rel = filepath.Base(p.Filename)
	}
	*in.sites = append(*in.sites, fmt.Sprintf("%s:%d:%d:%s", rel, p.Line, p.Column, kind))
	in.stats[kind]++
	in.used = true
	return intLit(siteBase + len(*in.sites) - 1)
}

func intLit(v int) ast.Expr { return &ast.BasicLit{Kind: token.INT, Value: strconv.Itoa(v)} }
func sel(pkg, name string) ast.Expr {
	return &ast.SelectorExpr{X: ast.NewIdent(pkg), Sel: ast.NewIdent(name)}
}
func call(fn ast.Expr, args ...ast.Expr) *ast.CallExpr { return &ast.CallExpr{Fun: fn, Args: args} }
func rt(name string) ast.Expr                         { return sel("simrt", name) }

func (in *inst) typeOf(e ast.Expr) types.Type {
	if tv, ok := in.info.Types[e]; ok {
		return tv.Type
	}
	return nil
}

func namedOf(t types.Type) (pkg, name string) {
	if t == nil {
		return
	}
	if p, ok := t.(*types.Pointer); ok {
		t = p.Elem()
	}
	if n, ok := t.(*types.Named); ok && n.Obj().Pkg() != nil {
		return n.Obj().Pkg().Path(), n.Obj().Name()
	}
	return
}

func (in *inst) pkgFunc(c *ast.CallExpr) (pkg, name string) {
	se, ok := c.Fun.(*ast.SelectorExpr)
	if !ok {
		return
	}
	id, ok := se.X.(*ast.Ident)
	if !ok {
		return
	}
	if pn, ok := in.info.Uses[id].(*types.PkgName); ok {
		return pn.Imported().Path(), se.Sel.Name
	}
	return
}

// addr returns an expression of pointer type for x (x itself if it already is a pointer).
func (in *inst) addr(x ast.Expr) ast.Expr {
	if t := in.typeOf(x); t != nil {
		if _, ok := t.Underlying().(*types.Pointer); ok {
			return x
		}
	}
	return &ast.UnaryExpr{Op: token.AND, X: x}
}

// rewriteExpr is applied bottom-up to every expression.
func (in *inst) rewriteExpr(e ast.Expr) ast.Expr {
	switch x := e.(type) {
	case *ast.UnaryExpr:
		if x.Op == token.ARROW {
			return call(rt("Recv"), in.site(x, "recv"), x.X)
		}
	case *ast.SelectorExpr:
		// type replacement sync.Pool / sync.Map / sync.Once
		if id, ok := x.X.(*ast.Ident); ok {
			if pn, ok := in.info.Uses[id].(*types.PkgName); ok && pn.Imported().Path() == "sync" {
				switch x.Sel.Name {
				case "Pool", "Map", "Once":
					in.used = true
					in.stats["type:sync."+x.Sel.Name]++
					return rt(map[string]string{"Pool": "Pool", "Map": "SyncMap", "Once": "Once"}[x.Sel.Name])
				case "Cond", "NewCond":
					die("%s: sync.Cond is not supported by the simulator", in.fset.Position(x.Pos()))
				}
			}
		}
	case *ast.CallExpr:
		// len(ch) / cap(ch) of a channel observe shared state: a visible operation
		if id, ok := x.Fun.(*ast.Ident); ok && (id.Name == "len" || id.Name == "cap") && len(x.Args) == 1 {
			if _, isBuiltin := in.info.Uses[id].(*types.Builtin); isBuiltin {
				if t := in.typeOf(x.Args[0]); t != nil {
					if _, isChan := t.Underlying().(*types.Chan); isChan {
						x.Args[0] = call(rt("YP"), in.site(x, "chan."+id.Name), x.Args[0])
						return x
					}
				}
			}
		}
		if pkg, name := in.pkgFunc(x); pkg != "" {
			switch {
			case pkg == "sync/atomic" && len(x.Args) > 0:
				st := in.site(x, "atomic."+name)
				x.Args[0] = call(rt("YP"), st, x.Args[0])
				if tv, ok := in.info.Types[x]; ok && tv.Type != nil && !tv.IsVoid() {
					if _, isTuple := tv.Type.(*types.Tuple); !isTuple {
						return call(rt("Out"), st, x)
					}
				}
				return x
			case pkg == "time" && name == "Sleep":
				return call(rt("Sleep"), in.site(x, "sleep"), x.Args[0])
			case pkg == "time" && name == "AfterFunc":
				x.Args[1] = call(rt("TimerTask"), in.site(x, "afterfunc"), x.Args[1])
				return x
			case pkg == "context" && name == "AfterFunc":
				x.Args[1] = call(rt("TimerTask"), in.site(x, "ctx.afterfunc"), x.Args[1])
				return x
			}
			return x
		}
		// method calls
		if se, ok := x.Fun.(*ast.SelectorExpr); ok {
			if s, ok := in.info.Selections[se]; ok && s.Kind() == types.MethodVal {
				fn, _ := s.Obj().(*types.Func)
				if fn == nil {
					break
				}
				sig := fn.Type().(*types.Signature)
				if sig.Recv() == nil {
					break
				}
				rp, rn := namedOf(sig.Recv().Type())
				switch {
				case rp == "sync" && (rn == "Mutex" || rn == "RWMutex"):
					kind := "Mu"
					if rn == "RWMutex" {
						kind = "RW"
					}
					switch se.Sel.Name {
					case "Lock", "Unlock", "RLock", "RUnlock":
						recv := se.X
						if len(s.Index()) != 1 {
							// promoted through embedding: spell the embedded field out
							recv = &ast.SelectorExpr{X: se.X, Sel: ast.NewIdent(rn)}
							if len(s.Index()) != 2 {
								die("%s: deeply promoted mutex method", in.fset.Position(x.Pos()))
							}
							return call(rt(kind+se.Sel.Name), in.site(x, "mutex."+se.Sel.Name), &ast.UnaryExpr{Op: token.AND, X: recv})
						}
						return call(rt(kind+se.Sel.Name), in.site(x, "mutex."+se.Sel.Name), in.addr(recv))
					}
				case rp == "sync" && rn == "WaitGroup" && se.Sel.Name == "Wait":
					return call(rt("WgWait"), in.site(x, "wg.Wait"), in.addr(se.X))
				case rp == "time" && rn == "Timer" && (se.Sel.Name == "Stop" || se.Sel.Name == "Reset"):
					se.X = call(rt("YP"), in.site(x, "timer."+se.Sel.Name), se.X)
					return x
				case rp == "context" && rn == "Context" && se.Sel.Name == "Err":
					se.X = call(rt("YP"), in.site(x, "ctx.Err"), se.X)
					return x
				case rp == "sync/atomic":
					// typed atomics: (&x).Load() with a yield while evaluating the receiver
					st := in.site(x, "atomic."+rn+"."+se.Sel.Name)
					se.X = call(rt("YP"), st, in.addr(se.X))
					if tv, ok := in.info.Types[x]; ok && tv.Type != nil && !tv.IsVoid() {
						if _, isTuple := tv.Type.(*types.Tuple); !isTuple {
							return call(rt("Out"), st, x)
						}
					}
					return x
				}
			}
		}
		// CancelFunc call
		if t := in.typeOf(x.Fun); t != nil {
			if ts := t.String(); ts == "context.CancelFunc" || ts == "context.CancelCauseFunc" {
				x.Fun = call(rt("YP"), in.site(x, "cancel"), x.Fun)
				return x
			}
		}
	}
	return e
}

// rewriteStmt may replace a statement by another (possibly a block).
func (in *inst) rewriteStmt(s ast.Stmt) ast.Stmt {
	switch x := s.(type) {
	case *ast.SendStmt:
		return &ast.ExprStmt{X: call(rt("Send"), in.site(x, "send"), x.Chan, x.Value)}
	case *ast.GoStmt:
		st := in.site(x, "go")
		if len(x.Call.Args) == 0 {
			return &ast.ExprStmt{X: call(rt("Go"), st, x.Call.Fun)}
		}
		// evaluate function value and arguments now, run later
		var pre []ast.Stmt
		var args []ast.Expr
		in.tmp++
		fv := ast.NewIdent(fmt.Sprintf("_gf%d", in.tmp))
		pre = append(pre, &ast.AssignStmt{Lhs: []ast.Expr{fv}, Tok: token.DEFINE, Rhs: []ast.Expr{x.Call.Fun}})
		for i, a := range x.Call.Args {
			av := ast.NewIdent(fmt.Sprintf("_ga%d_%d", in.tmp, i))
			pre = append(pre, &ast.AssignStmt{Lhs: []ast.Expr{av}, Tok: token.DEFINE, Rhs: []ast.Expr{a}})
			args = append(args, av)
		}
		c := call(fv, args...)
		c.Ellipsis = x.Call.Ellipsis
		lit := &ast.FuncLit{Type: &ast.FuncType{Params: &ast.FieldList{}}, Body: &ast.BlockStmt{List: []ast.Stmt{&ast.ExprStmt{X: c}}}}
		pre = append(pre, &ast.ExprStmt{X: call(rt("Go"), st, lit)})
		return &ast.BlockStmt{List: pre}
	case *ast.RangeStmt:
		t := in.typeOf(x.X)
		if t == nil {
			return s
		}
		switch t.Underlying().(type) {
		case *types.Map:
			return in.rewriteRangeMap(x)
		case *types.Chan:
			return in.rewriteRangeChan(x)
		}
	}
	return s
}

func (in *inst) rewriteRangeChan(r *ast.RangeStmt) ast.Stmt {
	st := in.site(r, "rangechan")
	in.tmp++
	ch := ast.NewIdent(fmt.Sprintf("_rc%d", in.tmp))
	v := ast.NewIdent(fmt.Sprintf("_rv%d", in.tmp))
	ok := ast.NewIdent(fmt.Sprintf("_rok%d", in.tmp))
	body := []ast.Stmt{
		&ast.AssignStmt{Lhs: []ast.Expr{v, ok}, Tok: token.DEFINE, Rhs: []ast.Expr{call(rt("Recv2"), st, ch)}},
		&ast.IfStmt{Cond: &ast.UnaryExpr{Op: token.NOT, X: ok}, Body: &ast.BlockStmt{List: []ast.Stmt{&ast.BranchStmt{Tok: token.BREAK}}}},
	}
	if r.Key != nil && !isBlank(r.Key) {
		body = append(body, &ast.AssignStmt{Lhs: []ast.Expr{r.Key}, Tok: r.Tok, Rhs: []ast.Expr{v}})
	} else {
		body = append(body, &ast.AssignStmt{Lhs: []ast.Expr{ast.NewIdent("_")}, Tok: token.ASSIGN, Rhs: []ast.Expr{v}})
	}
	body = append(body, r.Body.List...)
	return &ast.BlockStmt{List: []ast.Stmt{
		&ast.AssignStmt{Lhs: []ast.Expr{ch}, Tok: token.DEFINE, Rhs: []ast.Expr{r.X}},
		&ast.ForStmt{Body: &ast.BlockStmt{List: body}},
	}}
}

func (in *inst) rewriteRangeMap(r *ast.RangeStmt) ast.Stmt {
	st := in.site(r, "rangemap")
	in.tmp++
	m := ast.NewIdent(fmt.Sprintf("_m%d", in.tmp))
	k := ast.NewIdent(fmt.Sprintf("_k%d", in.tmp))
	okv := ast.NewIdent(fmt.Sprintf("_ok%d", in.tmp))
	var pre []ast.Stmt
	if r.Key != nil && !isBlank(r.Key) {
		pre = append(pre, &ast.AssignStmt{Lhs: []ast.Expr{r.Key}, Tok: r.Tok, Rhs: []ast.Expr{k}})
		if r.Tok == token.DEFINE {
			pre = append(pre, &ast.AssignStmt{Lhs: []ast.Expr{ast.NewIdent("_")}, Tok: token.ASSIGN, Rhs: []ast.Expr{r.Key}})
		}
	}
	idx := &ast.IndexExpr{X: m, Index: k}
	val := r.Value
	switch {
	case val == nil || isBlank(val):
		pre = append(pre, &ast.AssignStmt{Lhs: []ast.Expr{ast.NewIdent("_"), okv}, Tok: token.DEFINE, Rhs: []ast.Expr{idx}})
	case r.Tok == token.DEFINE:
		pre = append(pre, &ast.AssignStmt{Lhs: []ast.Expr{val, okv}, Tok: token.DEFINE, Rhs: []ast.Expr{idx}})
		pre = append(pre, &ast.AssignStmt{Lhs: []ast.Expr{ast.NewIdent("_")}, Tok: token.ASSIGN, Rhs: []ast.Expr{val}})
	default:
		pre = append(pre, &ast.DeclStmt{Decl: &ast.GenDecl{Tok: token.VAR, Specs: []ast.Spec{&ast.ValueSpec{Names: []*ast.Ident{okv}, Type: ast.NewIdent("bool")}}}})
		pre = append(pre, &ast.AssignStmt{Lhs: []ast.Expr{val, okv}, Tok: token.ASSIGN, Rhs: []ast.Expr{idx}})
	}
	// an entry deleted during iteration is not produced (Go map semantics)
	pre = append(pre, &ast.IfStmt{Cond: &ast.UnaryExpr{Op: token.NOT, X: okv}, Body: &ast.BlockStmt{List: []ast.Stmt{&ast.BranchStmt{Tok: token.CONTINUE}}}})
	body := &ast.BlockStmt{List: append(pre, r.Body.List...)}
	return &ast.BlockStmt{List: []ast.Stmt{
		&ast.AssignStmt{Lhs: []ast.Expr{m}, Tok: token.DEFINE, Rhs: []ast.Expr{r.X}},
		&ast.RangeStmt{Key: ast.NewIdent("_"), Value: k, Tok: token.DEFINE, X: call(rt("MapKeys"), st, m), Body: body},
	}}
}

func isBlank(e ast.Expr) bool { id, ok := e.(*ast.Ident); return ok && id.Name == "_" }

func (in *inst) rewriteSelect(s *ast.SelectStmt) ast.Stmt {
	st := in.site(s, "select")
	in.tmp++
	n := in.tmp
	var pre []ast.Stmt
	var cases []ast.Expr
	iv := ast.NewIdent(fmt.Sprintf("_si%d", n))
	rv := ast.NewIdent(fmt.Sprintf("_srv%d", n))
	rok := ast.NewIdent(fmt.Sprintf("_srok%d", n))
	sw := &ast.SwitchStmt{Tag: iv, Body: &ast.BlockStmt{}}
	hasDefault := "false"
	idx := 0
	unwrapRecv := func(e ast.Expr) ast.Expr {
		for {
			if p, ok := e.(*ast.ParenExpr); ok {
				e = p.X
				continue
			}
			break
		}
		u, ok := e.(*ast.UnaryExpr)
		if !ok || u.Op != token.ARROW {
			die("%s: unsupported receive form in select", in.fset.Position(e.Pos()))
		}
		return u.X
	}
	for _, c := range s.Body.List {
		cc := c.(*ast.CommClause)
		if cc.Comm == nil {
			hasDefault = "true"
			sw.Body.List = append(sw.Body.List, &ast.CaseClause{List: []ast.Expr{&ast.UnaryExpr{Op: token.SUB, X: intLit(1)}}, Body: cc.Body})
			continue
		}
		chv := ast.NewIdent(fmt.Sprintf("_sc%d_%d", n, idx))
		var body []ast.Stmt
		switch comm := cc.Comm.(type) {
		case *ast.SendStmt:
			vv := ast.NewIdent(fmt.Sprintf("_sv%d_%d", n, idx))
			pre = append(pre, &ast.AssignStmt{Lhs: []ast.Expr{chv, vv}, Tok: token.DEFINE, Rhs: []ast.Expr{comm.Chan, comm.Value}})
			cases = append(cases, call(rt("SendCase"), chv, vv))
		case *ast.ExprStmt:
			pre = append(pre, &ast.AssignStmt{Lhs: []ast.Expr{chv}, Tok: token.DEFINE, Rhs: []ast.Expr{unwrapRecv(comm.X)}})
			cases = append(cases, call(rt("RecvCase"), chv))
		case *ast.AssignStmt:
			if len(comm.Rhs) != 1 {
				die("%s: unsupported comm clause", in.fset.Position(comm.Pos()))
			}
			pre = append(pre, &ast.AssignStmt{Lhs: []ast.Expr{chv}, Tok: token.DEFINE, Rhs: []ast.Expr{unwrapRecv(comm.Rhs[0])}})
			cases = append(cases, call(rt("RecvCase"), chv))
			rhs := []ast.Expr{call(rt("As"), chv, rv)}
			if len(comm.Lhs) == 2 {
				rhs = append(rhs, rok)
			}
			body = append(body, &ast.AssignStmt{Lhs: comm.Lhs, Tok: comm.Tok, Rhs: rhs})
			if comm.Tok == token.DEFINE {
				for _, l := range comm.Lhs {
					if !isBlank(l) {
						body = append(body, &ast.AssignStmt{Lhs: []ast.Expr{ast.NewIdent("_")}, Tok: token.ASSIGN, Rhs: []ast.Expr{l}})
					}
				}
			}
		default:
			die("%s: unsupported comm clause %T", in.fset.Position(cc.Pos()), comm)
		}
		sw.Body.List = append(sw.Body.List, &ast.CaseClause{List: []ast.Expr{intLit(idx)}, Body: append(body, cc.Body...)})
		idx++
	}
	// A select whose every branch ends in a terminating statement is itself terminating; keep that property
	// for the generated switch (a switch without default never is), otherwise "missing return".
	sw.Body.List = append(sw.Body.List, &ast.CaseClause{List: nil, Body: []ast.Stmt{
		&ast.ExprStmt{X: call(ast.NewIdent("panic"), &ast.BasicLit{Kind: token.STRING, Value: `"simrt: unreachable select branch"`})}}})
	args := append([]ast.Expr{st, ast.NewIdent(hasDefault)}, cases...)
	pre = append(pre, &ast.AssignStmt{Lhs: []ast.Expr{iv, rv, rok}, Tok: token.DEFINE, Rhs: []ast.Expr{call(rt("Select"), args...)}})
	pre = append(pre, &ast.AssignStmt{Lhs: []ast.Expr{ast.NewIdent("_"), ast.NewIdent("_")}, Tok: token.ASSIGN, Rhs: []ast.Expr{rv, rok}})
	return &ast.BlockStmt{List: append(pre, sw)}
}

var (
	exprT = reflect.TypeOf((*ast.Expr)(nil)).Elem()
	stmtT = reflect.TypeOf((*ast.Stmt)(nil)).Elem()
	nodeT = reflect.TypeOf((*ast.Node)(nil)).Elem()
)

// walk rewrites children first (bottom-up), then lets the caller replace the node itself.
func (in *inst) walk(v reflect.Value) {
	switch v.Kind() {
	case reflect.Ptr, reflect.Interface:
		if v.IsNil() {
			return
		}
		in.walk(v.Elem())
	case reflect.Slice:
		for i := 0; i < v.Len(); i++ {
			in.walkField(v.Index(i))
		}
	case reflect.Struct:
		if !v.CanAddr() {
			return
		}
		switch v.Addr().Interface().(type) {
		case *ast.Object, *ast.Scope, *ast.CommentGroup, *ast.Comment:
			return
		}
		for i := 0; i < v.NumField(); i++ {
			f := v.Field(i)
			if !f.CanSet() {
				continue
			}
			in.walkField(f)
		}
	}
}

func (in *inst) walkField(f reflect.Value) {
	t := f.Type()
	switch {
	case t == exprT:
		if f.IsNil() {
			return
		}
		in.walk(f)
		f.Set(reflect.ValueOf(in.rewriteExpr(f.Interface().(ast.Expr))))
	case t == stmtT:
		if f.IsNil() {
			return
		}
		if lb, ok := f.Interface().(*ast.LabeledStmt); ok {
			if _, isSel := lb.Stmt.(*ast.SelectStmt); isSel {
				die("%s: labeled select is not supported", in.fset.Position(lb.Pos()))
			}
		}
		if ls, ok := f.Interface().(*ast.AssignStmt); ok && len(ls.Lhs) == 2 && len(ls.Rhs) == 1 {
			if u, ok := ls.Rhs[0].(*ast.UnaryExpr); ok && u.Op == token.ARROW { // v, ok := <-ch
				in.walkField(reflect.ValueOf(&u.X).Elem())
				in.walk(reflect.ValueOf(&ls.Lhs).Elem())
				ls.Rhs[0] = call(rt("Recv2"), in.site(u, "recv2"), u.X)
				return
			}
		}
		if ss, ok := f.Interface().(*ast.SelectStmt); ok {
			// a `break` inside a case body that targets the select itself would target the generated switch:
			// same effect (leaves the construct), so nothing to do.
			for _, c := range ss.Body.List {
				cc := c.(*ast.CommClause)
				in.walk(reflect.ValueOf(&cc.Body).Elem())
				switch comm := cc.Comm.(type) {
				case nil:
				case *ast.SendStmt:
					in.walkField(reflect.ValueOf(&comm.Chan).Elem())
					in.walkField(reflect.ValueOf(&comm.Value).Elem())
				case *ast.ExprStmt:
					u, ok := comm.X.(*ast.UnaryExpr)
					if !ok {
						die("%s: unsupported comm clause", in.fset.Position(comm.Pos()))
					}
					in.walkField(reflect.ValueOf(&u.X).Elem())
				case *ast.AssignStmt:
					u, ok := comm.Rhs[0].(*ast.UnaryExpr)
					if !ok {
						die("%s: unsupported comm clause", in.fset.Position(comm.Pos()))
					}
					in.walkField(reflect.ValueOf(&u.X).Elem())
					in.walk(reflect.ValueOf(&comm.Lhs).Elem())
				default:
					die("%s: unsupported comm clause %T", in.fset.Position(cc.Pos()), comm)
				}
			}
			f.Set(reflect.ValueOf(in.rewriteSelect(ss)))
			return
		}
		in.walk(f)
		if ds, ok := f.Interface().(*ast.DeferStmt); ok {
			// DeferStmt.Call is a *ast.CallExpr field, not an ast.Expr: rewrite it explicitly
			switch r := in.rewriteExpr(ds.Call).(type) {
			case *ast.CallExpr:
				ds.Call = r
			default:
				die("%s: deferred call rewritten to a non-call", in.fset.Position(ds.Pos()))
			}
		}
		f.Set(reflect.ValueOf(in.rewriteStmt(f.Interface().(ast.Stmt))))
	case t.Kind() == reflect.Slice || t.Kind() == reflect.Ptr || t.Kind() == reflect.Interface:
		if t.Kind() == reflect.Ptr && !t.Implements(nodeT) && t.Elem().Kind() != reflect.Struct {
			return
		}
		in.walk(f)
	}
}

type unit struct {
	dir   string
	names []string
	files []*ast.File
	info  *types.Info
}

func main() {
	flag.Parse()
	if *root == "" {
		die("missing -root")
	}
	abs, err := filepath.Abs(*root)
	if err != nil {
		die("%v", err)
	}
	*root = abs
	if err := os.Chdir(*root); err != nil {
		die("%v", err)
	}
	fset := token.NewFileSet()
	imp := importer.ForCompiler(fset, "source", nil)
	var units []*unit

	// phase 1: parse and type-check every package of the pristine copy
	var dirs []string
	filepath.Walk(*root, func(p string, fi os.FileInfo, err error) error {
		if err != nil || !fi.IsDir() {
			return nil
		}
		rel, _ := filepath.Rel(*root, p)
		if rel != "." && (strings.HasPrefix(filepath.Base(p), ".") || strings.HasPrefix(filepath.Base(p), "_") ||
			filepath.Base(p) == "testdata" || rel == *skipDir || filepath.Base(p) == "vendor") {
			return filepath.SkipDir
		}
		dirs = append(dirs, p)
		return nil
	})
	sort.Strings(dirs)
	for _, p := range dirs {
		pkgs, err := parser.ParseDir(fset, p, func(fi os.FileInfo) bool { return !strings.HasSuffix(fi.Name(), "_test.go") }, parser.ParseComments)
		if err != nil {
			die("parse %s: %v", p, err)
		}
		var pnames []string
		for n := range pkgs {
			pnames = append(pnames, n)
		}
		sort.Strings(pnames)
		for _, pn := range pnames {
			pkg := pkgs[pn]
			u := &unit{dir: p}
			for n := range pkg.Files {
				u.names = append(u.names, n)
			}
			sort.Strings(u.names)
			for _, n := range u.names {
				u.files = append(u.files, pkg.Files[n])
			}
			u.info = &types.Info{Types: map[ast.Expr]types.TypeAndValue{}, Uses: map[*ast.Ident]types.Object{},
				Defs: map[*ast.Ident]types.Object{}, Selections: map[*ast.SelectorExpr]*types.Selection{}}
			conf := types.Config{Importer: imp}
			if _, err := conf.Check(p, fset, u.files, u.info); err != nil {
				die("typecheck %s: %v", p, err)
			}
			units = append(units, u)
		}
	}

	// phase 2: rewrite
	total := map[string]int{}
	var allSites []string
	for _, u := range units {
		for i, f := range u.files {
			in := &inst{fset: fset, info: u.info, sites: &allSites, stats: total}
			in.walk(reflect.ValueOf(f))
			if !in.used {
				continue
			}
			var keep []*ast.CommentGroup
			for _, cg := range f.Comments {
				txt := ""
				for _, c := range cg.List {
					txt += c.Text + "\n"
				}
				if cg.End() < f.Package && (strings.Contains(txt, "//go:") || strings.Contains(txt, "+build")) {
					keep = append(keep, cg)
				} else if strings.Contains(txt, "//go:embed") || strings.Contains(txt, "//go:linkname") {
					die("%s: directive comment would be lost", u.names[i])
				}
			}
			f.Comments = keep
			f.Doc = nil
			pruneImports(f)
			f.Decls = append([]ast.Decl{&ast.GenDecl{Tok: token.IMPORT, Specs: []ast.Spec{&ast.ImportSpec{
				Name: ast.NewIdent("simrt"), Path: &ast.BasicLit{Kind: token.STRING, Value: strconv.Quote(*simrtImp)}}}}}, f.Decls...)
			var buf bytes.Buffer
			if err := format.Node(&buf, fset, f); err != nil {
				die("format %s: %v", u.names[i], err)
			}
			if err := os.WriteFile(u.names[i], buf.Bytes(), 0o644); err != nil {
				die("%v", err)
			}
		}
	}
	if *sitesOut != "" {
		var b bytes.Buffer
		b.WriteString("// Code generated by verif-instr. DO NOT EDIT.\n\npackage simrt\n\nfunc init() {\n\trepoSites = []string{\n")
		for _, s := range allSites {
			fmt.Fprintf(&b, "\t\t%q,\n", s)
		}
		b.WriteString("\t}\n}\n")
		if err := os.WriteFile(*sitesOut, b.Bytes(), 0o644); err != nil {
			die("%v", err)
		}
	}
	if *verbose {
		keys := []string{}
		for k := range total {
			keys = append(keys, k)
		}
		sort.Strings(keys)
		for _, k := range keys {
			fmt.Printf("%-28s %d\n", k, total[k])
		}
	}
	fmt.Printf("verif-instr: %d sites in %d packages\n", len(allSites), len(units))
}

func pruneImports(f *ast.File) {
	used := map[string]bool{}
	ast.Inspect(f, func(n ast.Node) bool {
		if se, ok := n.(*ast.SelectorExpr); ok {
			if id, ok := se.X.(*ast.Ident); ok {
				used[id.Name] = true
			}
		}
		return true
	})
	for _, d := range f.Decls {
		gd, ok := d.(*ast.GenDecl)
		if !ok || gd.Tok != token.IMPORT {
			continue
		}
		var specs []ast.Spec
		for _, sp := range gd.Specs {
			is := sp.(*ast.ImportSpec)
			path, _ := strconv.Unquote(is.Path.Value)
			name := path[strings.LastIndex(path, "/")+1:]
			if is.Name != nil {
				name = is.Name.Name
			}
			// only prune the packages whose sole use we may have rewritten away
			if (path == "sync" || path == "sync/atomic" || path == "time") && !used[name] {
				continue
			}
			specs = append(specs, sp)
		}
		gd.Specs = specs
		gd.Lparen, gd.Rparen = 1, 1
	}
}
